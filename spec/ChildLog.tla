------------------------------ MODULE ChildLog ------------------------------
(***************************************************************************)
(* C20.  Log records of a child started through mpservice's Process reach  *)
(* the parent's logging configuration exactly once and in order, and the   *)
(* child can always exit.   (multiprocessing/context.py)                    *)
(*                                                                         *)
(* child   Emit         the root logger's QueueHandler appends record i to *)
(*                      the queue's local buffer (never blocks)            *)
(*         CFeederTake / CFeederWrite   the queue's feeder thread takes    *)
(*                      the write lock and writes the oldest buffered      *)
(*                      record into the pipe; the pipe holds P units, the  *)
(*                      write blocks (holding the lock) while it is full   *)
(*         TargetEnd, SendResult (result + error over the result pipe),    *)
(*         CloseQueue (handler removed, queue closed),                     *)
(*         ChildExit    process exit joins the feeder thread: the child    *)
(*                      cannot exit with unflushed records                 *)
(* parent  LoggerRead / LoggerHandle   logger thread: q.get(); None ends   *)
(*                      it; a record is handled if it passes the level of  *)
(*                      the parent's logger                                *)
(*         CollGot      collector thread has received result and error     *)
(*         CollEnd      collector puts the terminating None (into the      *)
(*                      parent's buffer of the same queue) and finishes    *)
(*         PFeederTake / PFeederWrite   the parent's feeder thread writes  *)
(*                      None into the same pipe under the same write lock  *)
(*         Join         join(): child exited and collector finished        *)
(*                                                                         *)
(* Flag (FALSE = code as found, TRUE = repaired design):                   *)
(*   NoneAfterChildExit   the collector ends the log stream only after the *)
(*        child has exited.  As found it puts None as soon as the result   *)
(*        has arrived, racing the child's feeder for the pipe: records     *)
(*        written after the None are never read (lost), and if they exceed *)
(*        the pipe the child blocks at exit forever: join hangs  (D13)     *)
(***************************************************************************)
EXTENDS Integers, Sequences, FiniteSets, TLC

CONSTANTS NoneAfterChildExit,
          MaxN,     \* records per scenario: 0..MaxN
          Caps      \* pipe capacities explored by Init

VARIABLES
  p,        \* scenario: [n, recs, P, kind, pass]; recs[i] = [s |-> size in units, hi |-> passes the parent's level];
            \* pass = the record numbers that pass the parent's level, in order (derived, kept for cheap evaluation)
  cpc,      \* child main thread: "run" "sendres" "closeq" "exiting" "dead"
  emitted,  \* records emitted so far (1..emitted)
  cbuf,     \* child-side buffer of the log queue (record numbers)
  cf,       \* child feeder: "idle" | "hold" (has the write lock, writing Head(cbuf))
  pipe,     \* the log pipe: sequence of [t |-> "rec" | "none", i |-> number]
  used,     \* units occupied in the pipe (= SumSizes(pipe), kept as a variable so that traces validate in linear time)
  wlock,    \* write lock of the queue: "free" | "child" | "parent"
  resSent,  \* result and error are in the result pipe
  kpc,      \* collector thread: "recv" "got" "done"
  pbuf,     \* Nones in the parent-side buffer of the log queue
  pf,       \* parent feeder: "idle" | "hold"
  lpc,      \* logger thread: "read" "handle" "stopped"
  cur,      \* item the logger thread holds
  handled,  \* record numbers handled by the parent's handlers, in order
  joined,   \* join() has returned
  code      \* exit code (NoCode while running)

vars == <<p, cpc, emitted, cbuf, cf, pipe, used, wlock, resSent, kpc, pbuf, pf, lpc, cur, handled, joined, code>>

Kinds == {"return", "raise", "exit0", "exitN"}
NoCode == 99
CodeOf(k) == CASE k = "raise" -> 1 [] k = "exitN" -> 3 [] OTHER -> 0
RecKinds == {[s |-> 1, hi |-> TRUE], [s |-> 2, hi |-> TRUE], [s |-> 1, hi |-> FALSE]}
NoneItem == [t |-> "none", i |-> 0]
Rec(i) == [t |-> "rec", i |-> i]

Size(it) == IF it.t = "none" THEN 1 ELSE p.recs[it.i].s
RECURSIVE SumSizes(_)
SumSizes(q) == IF q = <<>> THEN 0 ELSE Size(Head(q)) + SumSizes(Tail(q))
Free == p.P - used

\* the records that pass the parent's level, in order
PassingOf(recs, n) == SelectSeq([i \in 1..n |-> i], LAMBDA i : recs[i].hi)
IsPrefix(a, b) == Len(a) <= Len(b) /\ \A i \in 1..Len(a) : a[i] = b[i]

Params == { c \in [n : 0..MaxN, recs : UNION {[1..k -> RecKinds] : k \in 0..MaxN}, P : Caps, kind : Kinds] :
              DOMAIN c.recs = 1..c.n }

InitWith(c) ==
  /\ p = [n |-> c.n, recs |-> c.recs, P |-> c.P, kind |-> c.kind, pass |-> PassingOf(c.recs, c.n)]
  /\ cpc = "run" /\ emitted = 0 /\ cbuf = <<>> /\ cf = "idle" /\ pipe = <<>> /\ used = 0 /\ wlock = "free"
  /\ resSent = FALSE /\ kpc = "recv" /\ pbuf = 0 /\ pf = "idle" /\ lpc = "read" /\ cur = NoneItem
  /\ handled = <<>> /\ joined = FALSE /\ code = NoCode

Init == \E c \in Params : InitWith(c)

-----------------------------------------------------------------------------
\* child
EmitEn == cpc = "run" /\ emitted < p.n
Emit == /\ EmitEn
        /\ emitted' = emitted + 1 /\ cbuf' = Append(cbuf, emitted + 1)
        /\ UNCHANGED <<p, cpc, cf, pipe, used, wlock, resSent, kpc, pbuf, pf, lpc, cur, handled, joined, code>>

TargetEndEn == cpc = "run" /\ emitted = p.n
TargetEnd == /\ TargetEndEn
             /\ cpc' = "sendres"
             /\ UNCHANGED <<p, emitted, cbuf, cf, pipe, used, wlock, resSent, kpc, pbuf, pf, lpc, cur, handled, joined, code>>

SendResultEn == cpc = "sendres"
SendResult == /\ SendResultEn
              /\ resSent' = TRUE /\ cpc' = "closeq"
              /\ UNCHANGED <<p, emitted, cbuf, cf, pipe, used, wlock, kpc, pbuf, pf, lpc, cur, handled, joined, code>>

CloseQueueEn == cpc = "closeq"
CloseQueue == /\ CloseQueueEn
              /\ cpc' = "exiting"
              /\ UNCHANGED <<p, emitted, cbuf, cf, pipe, used, wlock, resSent, kpc, pbuf, pf, lpc, cur, handled, joined, code>>

CFeederTakeEn == cf = "idle" /\ cbuf # <<>> /\ wlock = "free"
CFeederTake == /\ CFeederTakeEn
               /\ cf' = "hold" /\ wlock' = "child"
               /\ UNCHANGED <<p, cpc, emitted, cbuf, pipe, used, resSent, kpc, pbuf, pf, lpc, cur, handled, joined, code>>

CFeederWriteEn == cf = "hold" /\ Free >= Size(Rec(Head(cbuf)))
CFeederWrite == /\ CFeederWriteEn
                /\ pipe' = Append(pipe, Rec(Head(cbuf))) /\ used' = used + Size(Rec(Head(cbuf))) /\ cbuf' = Tail(cbuf) /\ cf' = "idle" /\ wlock' = "free"
                /\ UNCHANGED <<p, cpc, emitted, resSent, kpc, pbuf, pf, lpc, cur, handled, joined, code>>

\* exit functions join the feeder thread, which ends only when the buffer is flushed
ChildExitEn == cpc = "exiting" /\ cbuf = <<>> /\ cf = "idle"
ChildExit == /\ ChildExitEn
             /\ cpc' = "dead" /\ code' = CodeOf(p.kind)
             /\ UNCHANGED <<p, emitted, cbuf, cf, pipe, used, wlock, resSent, kpc, pbuf, pf, lpc, cur, handled, joined>>

\* parent: collector thread
CollGotEn == kpc = "recv" /\ resSent
CollGot == /\ CollGotEn
           /\ kpc' = "got"
           /\ UNCHANGED <<p, cpc, emitted, cbuf, cf, pipe, used, wlock, resSent, pbuf, pf, lpc, cur, handled, joined, code>>

CollEndEn == kpc = "got" /\ (NoneAfterChildExit => cpc = "dead")
CollEnd == /\ CollEndEn
           /\ pbuf' = pbuf + 1 /\ kpc' = "done"
           /\ UNCHANGED <<p, cpc, emitted, cbuf, cf, pipe, used, wlock, resSent, pf, lpc, cur, handled, joined, code>>

PFeederTakeEn == pf = "idle" /\ pbuf > 0 /\ wlock = "free"
PFeederTake == /\ PFeederTakeEn
               /\ pf' = "hold" /\ wlock' = "parent"
               /\ UNCHANGED <<p, cpc, emitted, cbuf, cf, pipe, used, resSent, kpc, pbuf, lpc, cur, handled, joined, code>>

PFeederWriteEn == pf = "hold" /\ Free >= Size(NoneItem)
PFeederWrite == /\ PFeederWriteEn
                /\ pipe' = Append(pipe, NoneItem) /\ used' = used + Size(NoneItem) /\ pbuf' = pbuf - 1 /\ pf' = "idle" /\ wlock' = "free"
                /\ UNCHANGED <<p, cpc, emitted, cbuf, cf, resSent, kpc, lpc, cur, handled, joined, code>>

\* parent: logger thread
LoggerReadEn == lpc = "read" /\ pipe # <<>>
LoggerRead == /\ LoggerReadEn
              /\ cur' = Head(pipe) /\ pipe' = Tail(pipe) /\ used' = used - Size(Head(pipe))
              /\ lpc' = IF Head(pipe).t = "none" THEN "stopped" ELSE "handle"
              /\ UNCHANGED <<p, cpc, emitted, cbuf, cf, wlock, resSent, kpc, pbuf, pf, handled, joined, code>>

LoggerHandle == /\ lpc = "handle"
                /\ handled' = IF p.recs[cur.i].hi THEN Append(handled, cur.i) ELSE handled
                /\ lpc' = "read"
                /\ UNCHANGED <<p, cpc, emitted, cbuf, cf, pipe, used, wlock, resSent, kpc, pbuf, pf, cur, joined, code>>

\* parent: the user
Join == /\ ~joined /\ cpc = "dead" /\ kpc = "done"
        /\ joined' = TRUE
        /\ UNCHANGED <<p, cpc, emitted, cbuf, cf, pipe, used, wlock, resSent, kpc, pbuf, pf, lpc, cur, handled, code>>

Finished == joined /\ lpc = "stopped" /\ UNCHANGED vars

ChildStep == Emit \/ TargetEnd \/ SendResult \/ CloseQueue \/ ChildExit
Next == ChildStep \/ CFeederTake \/ CFeederWrite \/ CollGot \/ CollEnd \/ PFeederTake \/ PFeederWrite
        \/ LoggerRead \/ LoggerHandle \/ Join \/ Finished

Spec == Init /\ [][Next]_vars
FairSpec == Spec /\ WF_vars(ChildStep) /\ WF_vars(CFeederTake) /\ WF_vars(CFeederWrite) /\ WF_vars(CollGot)
                 /\ WF_vars(CollEnd) /\ WF_vars(PFeederTake) /\ WF_vars(PFeederWrite) /\ WF_vars(LoggerRead)
                 /\ WF_vars(LoggerHandle) /\ WF_vars(Join)

-----------------------------------------------------------------------------
TypeOK ==
  /\ cpc \in {"run", "sendres", "closeq", "exiting", "dead"} /\ emitted \in 0..p.n
  /\ cf \in {"idle", "hold"} /\ pf \in {"idle", "hold"} /\ wlock \in {"free", "child", "parent"}
  /\ kpc \in {"recv", "got", "done"} /\ lpc \in {"read", "handle", "stopped"} /\ pbuf \in 0..1
  /\ (wlock = "child") = (cf = "hold") /\ (wlock = "parent") = (pf = "hold")

PipeBound == used <= p.P /\ used >= 0
UsedRight == used = SumSizes(pipe)

\* C20 "exactly once and in emission order, subject only to the parent's level settings"
HandledPrefix == IsPrefix(handled, p.pass) /\ \A j \in 1..Len(handled) : handled[j] <= emitted

\* C20 "every log record ... including the records emitted just before the child returns, raises or exits":
\* when the parent stops listening it has handled everything
NoLoss == lpc = "stopped" => handled = p.pass

\* trap invariants (negated reachability goals): the corners the property is about must exist in the model
\* the result has arrived while the child's feeder is blocked on a full pipe with more records behind it
Trap_ResultWhileFeederBlocked == ~(kpc = "got" /\ cf = "hold" /\ ~CFeederWriteEn /\ Len(cbuf) >= 2)
\* join() has returned while the logger thread still has records to handle
Trap_JoinBeforeDrained == ~(joined /\ lpc # "stopped" /\ Len(pipe) >= 2)

\* C20 "however much the child logs, it can still exit and the parent's join/result still return"
ChildExits == (cpc = "sendres") ~> (cpc = "dead")
JoinReturns == <>joined
LoggerStops == <>(lpc = "stopped" /\ handled = p.pass)
=============================================================================
