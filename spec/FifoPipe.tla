------------------------------ MODULE FifoPipe ------------------------------
(***************************************************************************)
(* pipe.py: two named FIFOs wrapped in multiprocessing Connections, one per *)
(* direction (Server sends on path.2 and receives on path.1, Client the     *)
(* other way round).  A message is written as a run of UNITS (Connection    *)
(* writes a length header and the pickle; the kernel takes what fits into   *)
(* the pipe buffer and blocks for the rest), the reader re-assembles it.    *)
(*                                                                         *)
(* p.sz[d][k]  size in units of the k-th message of direction d            *)
(* p.cap       pipe buffer in units                                        *)
(* p.seq       usage mode: FALSE = each end sends and receives in separate  *)
(*             threads; TRUE = each end is ONE thread that sends all its    *)
(*             messages and then receives (the documented "send does not    *)
(*             block as long as the system buffer has space": with messages *)
(*             larger than the buffer in both directions this wedges - a    *)
(*             usage hazard that TLC exhibits, not a transport fault)       *)
(* p.exit      ends that leave (process exit) as soon as their own sends    *)
(*             have returned.  Flag EagerReader: FALSE = as found, an end   *)
(*             opens its READ fifo only inside its first recv() (pipe.py    *)
(*             77-85); until then nobody but the sender holds that fifo     *)
(*             open, and when the sender exits the kernel discards what it  *)
(*             wrote (NoLoss fails; the late recv() then blocks for ever).  *)
(*             TRUE = the read end is held from construction on.  This is   *)
(*             about process lifetimes, not about order / intactness: kept  *)
(*             as a lemma outside C18's clauses.                            *)
(* Serves C18 (pipe half).                                                  *)
(***************************************************************************)
EXTENDS Naturals, Sequences, FiniteSets, TLC

CONSTANTS Params, EagerReader
VARIABLES
  p,
  buf,    \* buf[d]: units in the FIFO of direction d, each <<message, part>>
  snt,    \* snt[d]: messages whose send() has begun
  wpart,  \* wpart[d]: units of the current message already written (0 with sending[d] FALSE = idle)
  sending,\* sending[d]: a send() call is in progress
  asm,    \* asm[d]: units of the incoming message already read by recv()
  rcv,    \* rcv[d]: messages delivered by recv(), in order
  torn,   \* a recv() assembled something that is not exactly one message (never, if the channel is FIFO and single-writer)
  ropen,  \* ropen[d]: the receiving end of direction d holds the fifo open for reading
  gone,   \* gone[s]: the end that SENDS in direction s has exited
  lost,   \* the kernel discarded unread data of a fifo that no process held open any more
  act
vars == <<p, buf, snt, wpart, sending, asm, rcv, torn, ropen, gone, lost, act>>

Dir == {1, 2}
Other(d) == 3 - d
N(d) == Len(p.sz[d])
Did(name, d, k) == act' = [name |-> name, d |-> d, k |-> k]

InitWith(q) ==
  /\ p = q
  /\ buf = [d \in Dir |-> <<>>] /\ snt = [d \in Dir |-> 0] /\ wpart = [d \in Dir |-> 0]
  /\ sending = [d \in Dir |-> FALSE] /\ asm = [d \in Dir |-> 0] /\ rcv = [d \in Dir |-> <<>>]
  /\ torn = FALSE /\ ropen = [d \in Dir |-> EagerReader] /\ gone = [d \in Dir |-> FALSE] /\ lost = FALSE
  /\ act = [name |-> "Init", d |-> 0, k |-> 0]
Init == \E q \in Params : InitWith(q)

\* send(obj) is called
SendBegin(d) ==
  /\ ~sending[d] /\ snt[d] < N(d) /\ ~gone[d]
  /\ sending' = [sending EXCEPT ![d] = TRUE] /\ snt' = [snt EXCEPT ![d] = @ + 1] /\ wpart' = [wpart EXCEPT ![d] = 0]
  /\ Did("SendBegin", d, snt[d] + 1)
  /\ UNCHANGED <<p, buf, asm, rcv, torn, ropen, gone, lost>>

\* the kernel accepts one more unit (blocks while the pipe buffer is full)
WriteUnit(d) ==
  /\ sending[d] /\ wpart[d] < p.sz[d][snt[d]] /\ Len(buf[d]) < p.cap
  /\ buf' = [buf EXCEPT ![d] = Append(@, <<snt[d], wpart[d] + 1>>)] /\ wpart' = [wpart EXCEPT ![d] = @ + 1]
  /\ Did("WriteUnit", d, snt[d])
  /\ UNCHANGED <<p, snt, sending, asm, rcv, torn, ropen, gone, lost>>

\* send() returns
SendEnd(d) ==
  /\ sending[d] /\ wpart[d] = p.sz[d][snt[d]]
  /\ sending' = [sending EXCEPT ![d] = FALSE]
  /\ Did("SendEnd", d, snt[d])
  /\ UNCHANGED <<p, buf, snt, wpart, asm, rcv, torn, ropen, gone, lost>>

\* the receiving end of direction d is the process that SENDS in the other direction
MayRead(d) == p.seq => (snt[Other(d)] = N(Other(d)) /\ ~sending[Other(d)])

\* recv() reads one more unit of the message it is assembling
ReadUnit(d) ==
  /\ MayRead(d) /\ ropen[d] /\ buf[d] # <<>> /\ asm[d] < p.sz[d][Len(rcv[d]) + 1]
  /\ torn' = (torn \/ Head(buf[d]) # <<Len(rcv[d]) + 1, asm[d] + 1>>)
  /\ buf' = [buf EXCEPT ![d] = Tail(@)] /\ asm' = [asm EXCEPT ![d] = @ + 1]
  /\ Did("ReadUnit", d, Len(rcv[d]) + 1)
  /\ UNCHANGED <<p, snt, wpart, sending, rcv, ropen, gone, lost>>

\* first recv(): os.open(rpath, O_RDONLY) - returns once some process has the fifo open for writing
OpenReader(d) ==
  /\ MayRead(d) /\ ~ropen[d] /\ ~gone[d] /\ ~gone[Other(d)]
  /\ ropen' = [ropen EXCEPT ![d] = TRUE]
  /\ Did("OpenReader", d, 0)
  /\ UNCHANGED <<p, buf, snt, wpart, sending, asm, rcv, torn, gone, lost>>

\* the end that sends in direction d exits after its last send() returned: its descriptors close; a fifo that nobody
\* holds open any more loses its content
Exit(d) ==
  /\ d \in p.exit /\ ~gone[d] /\ snt[d] = N(d) /\ ~sending[d]
  /\ gone' = [gone EXCEPT ![d] = TRUE]
  /\ IF ropen[d] THEN buf' = buf /\ lost' = lost
                 ELSE buf' = [buf EXCEPT ![d] = <<>>] /\ lost' = (lost \/ buf[d] # <<>>)
  /\ ropen' = [ropen EXCEPT ![Other(d)] = FALSE]
  /\ Did("Exit", d, 0)
  /\ UNCHANGED <<p, snt, wpart, sending, asm, rcv, torn>>

\* recv() returns the unpickled object
Recv(d) ==
  /\ Len(rcv[d]) < N(d) /\ asm[d] = p.sz[d][Len(rcv[d]) + 1] /\ Len(rcv[d]) < snt[d]
  /\ rcv' = [rcv EXCEPT ![d] = Append(@, Len(@) + 1)] /\ asm' = [asm EXCEPT ![d] = 0]
  /\ Did("Recv", d, Len(rcv[d]) + 1)
  /\ UNCHANGED <<p, buf, snt, wpart, sending, torn, ropen, gone, lost>>

AllDelivered == \A d \in Dir : Len(rcv[d]) = N(d) /\ ~sending[d]

Next ==
  \/ \E d \in Dir : SendBegin(d)
  \/ \E d \in Dir : WriteUnit(d)
  \/ \E d \in Dir : SendEnd(d)
  \/ \E d \in Dir : ReadUnit(d)
  \/ \E d \in Dir : Recv(d)
  \/ \E d \in Dir : OpenReader(d)
  \/ \E d \in Dir : Exit(d)
  \/ (AllDelivered /\ UNCHANGED vars)
Spec == Init /\ [][Next]_vars
FairSpec == Spec /\ \A d \in Dir : WF_vars(SendBegin(d)) /\ WF_vars(WriteUnit(d)) /\ WF_vars(SendEnd(d))
                                   /\ WF_vars(ReadUnit(d)) /\ WF_vars(Recv(d)) /\ WF_vars(OpenReader(d))

TypeOK == /\ \A d \in Dir : Len(buf[d]) <= p.cap /\ snt[d] \in 0..N(d) /\ Len(rcv[d]) <= N(d)
          /\ torn \in BOOLEAN
\* C18: in each direction the received sequence is a prefix of the sent sequence
FifoPrefix == \A d \in Dir : Len(rcv[d]) <= snt[d] /\ \A i \in 1..Len(rcv[d]) : rcv[d][i] = i
\* C18: every object arrives intact (recv never assembles units of two messages, or out of order)
Intact == ~torn
\* what is in the pipe is exactly the not yet read units of the messages sent, in order
ChannelShape ==
  \A d \in Dir : \A i \in 1..Len(buf[d]) :
     /\ buf[d][i][1] \in (Len(rcv[d]) + 1)..snt[d]
     /\ i > 1 => \/ buf[d][i][1] = buf[d][i-1][1] /\ buf[d][i][2] = buf[d][i-1][2] + 1
                 \/ buf[d][i][1] = buf[d][i-1][1] + 1 /\ buf[d][i][2] = 1 /\ buf[d][i-1][2] = p.sz[d][buf[d][i-1][1]]
\* lemma outside C18: nothing that was sent to an existing peer is discarded
NoLoss == ~lost
AllArrive == <>AllDelivered
NoActView == <<p, buf, snt, wpart, sending, asm, rcv, torn, ropen, gone, lost>>
=============================================================================
