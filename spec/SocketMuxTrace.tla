--------------------------- MODULE SocketMuxTrace ---------------------------
(* Validates executions of the REAL SocketClient / SocketServer (mbt/bind/socketmux.py: unix socket, server loop in a    *)
(* helper thread, handler completions gated by the harness) against SocketMux.                                         *)
(* Logged (one global list; an event is appended BEFORE an operation that hands something to another thread and AFTER    *)
(* one that receives): Sub (pending.put begins, with the request id), Take+Write (a sender calls write_record), Reg      *)
(* (active[id] = fut), SRecv (server read_record returned), HStart (handler entered; payload compared with what was      *)
(* sent), HFin (handler about to return / raise), Resp (server calls write_record), CRecv (active.pop), Ret / Yield       *)
(* (what the caller got, compared with H(payload) computed locally), End.                                               *)
(* Silent: the put going through (Insert / Block / InsertWoken), the server's task FIFO (SrvAdmit, SrvHead).            *)
EXTENDS SocketMux, Json, IOUtils, TLCExt

TraceLog == JsonDeserialize(IOEnv.TRACE_FILE)
VARIABLES tid, l
tvars == <<vars, tid, l>>

Evs == TraceLog[tid].ev
E == Evs[l]
Is(name) == l <= Len(Evs) /\ E.ev = name
Step == l' = l + 1 /\ tid' = tid
Silent == l' = l /\ tid' = tid
Same == UNCHANGED vars

ParamOf(h) == [K |-> h.K, B |-> h.B, PC |-> h.PC, cls |-> h.cls, stream |-> h.stream]

TraceInit ==
  \E t \in 1..Len(TraceLog) :
     /\ tid = t /\ l = 1 /\ InitWith(ParamOf(TraceLog[t].p))
     /\ TLCSet(t, <<1, "init", "none">>)

TSub    == Is("Sub") /\ Submit(E.r, E.id) /\ Step
TTake   == Is("Take") /\ Take(E.c) /\ snd'[E.c].r = E.r /\ Step
\* the id on the wire is the id of the request's own future
TWrite  == Is("Write") /\ snd[E.c].r = E.r /\ id[E.r] = E.id /\ WriteRecord(E.c) /\ Step
TReg    == Is("Reg") /\ snd[E.c].r = E.r /\ Register(E.c) /\ Step
TSRecv  == Is("SRecv") /\ (\E c \in AllConn : SrvReceive(c) /\ srx'[c].r = E.r) /\ Step
\* C18: the payload reached the routed handler intact
THStart == Is("HStart") /\ AtServer(E.r) /\ E.r \notin hdone /\ E.intact /\ Same /\ Step
THFin   == Is("HFin") /\ HandlerFinish(E.r) /\ Step
TResp   == Is("Resp") /\ (\E c \in AllConn : c \in Conn /\ shd[c].r = E.r /\ Respond(c)) /\ Step
\* `active.pop(id)` returned the future of request E.r (found) or raised KeyError
TCRecv  == /\ Is("CRecv")
           /\ \E c \in AllConn : ClientReceive(c) /\ act'.r = E.r
           /\ E.found = (E.r # 0)
           /\ Step
\* C18: the caller got H(its own payload), or the exception its own handler call raised (with the remote traceback)
TRet    == Is("Ret") /\ E.ok /\ Return(E.r) /\ Step
TYield  == Is("Yield") /\ E.ok /\ Yield(E.r) /\ Step
\* harness: all callers are back; nothing is left in the client's tables
TEnd    == Is("End") /\ AllReturned /\ E.active = 0 /\ active = {} /\ E.pending = 0 /\ pending = <<>> /\ Same /\ Step

TSilent == /\ \/ \E r \in AllReq : Insert(r) \/ Block(r) \/ InsertWoken(r)
              \/ \E c \in AllConn : SrvAdmit(c) \/ SrvHead(c)
           /\ Silent

TraceNext == TSub \/ TTake \/ TWrite \/ TReg \/ TSRecv \/ THStart \/ THFin \/ TResp \/ TCRecv \/ TRet \/ TYield \/ TEnd
             \/ TSilent
TraceSpec == TraceInit /\ [][TraceNext]_tvars

FailedInv ==
  IF ~RightRequest THEN "RightRequest" ELSE IF ~AtMostOnce THEN "AtMostOnce"
  ELSE IF ~ClientAlive THEN "ClientAlive" ELSE IF ~ReturnedResolved THEN "ReturnedResolved"
  ELSE IF ~StreamOrder THEN "StreamOrder" ELSE IF ~InProgressBound THEN "InProgressBound" ELSE "none"

Progress ==
  IF FailedInv # "none"
    THEN TLCSet(tid, <<TLCGet(tid)[1], TLCGet(tid)[2], FailedInv>>) /\ FALSE
    ELSE IF TLCGet(tid)[1] < l
           THEN TLCSet(tid, <<l, <<rst, pending, waiters, snd, active, wcs, srx, fifo, shd, hdone, wsc, val>>, TLCGet(tid)[3]>>)
           ELSE TRUE

Report ==
  \A t \in 1..Len(TraceLog) :
     PrintT(<<"VERDICT", t, TLCGet(t)[1], Len(TraceLog[t].ev), TLCGet(t)[2], TLCGet(t)[3]>>)
=============================================================================
