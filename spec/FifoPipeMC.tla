----------------------------- MODULE FifoPipeMC -----------------------------
EXTENDS FifoPipe
Sizes == {<<>>, <<1>>, <<3>>, <<1, 3>>, <<3, 1>>, <<1, 1, 3>>, <<3, 3>>}
\* both ends use separate sender / receiver threads
Threads == {[cap |-> c, sz |-> <<a, b>>, seq |-> FALSE, exit |-> {}] : c \in {1, 2}, a \in Sizes, b \in Sizes}
\* one thread per end, send first: fine while everything fits ...
SeqFits == {[cap |-> 2, sz |-> <<a, b>>, seq |-> TRUE, exit |-> {}] : a \in {<<1>>, <<1, 1>>}, b \in {<<>>, <<1>>, <<1, 1>>}}
\* ... wedges when both directions exceed the buffer
SeqBig == {[cap |-> 2, sz |-> <<<<3>>, <<3>>>>, seq |-> TRUE, exit |-> {}]}
\* a program that only sends and then ends, while its peer (already constructed) receives later
SendAndExit == {[cap |-> 2, sz |-> <<a, <<>>>>, seq |-> FALSE, exit |-> {1}] : a \in {<<1>>, <<1, 1>>, <<3>>}}
=============================================================================
