--------------------------- MODULE BackgroundTask ---------------------------
(***************************************************************************)
(* mpservice/background_task.py (NOT one of the listed properties: part of *)
(* the growing model of the library).  `BackgroundTask` keeps a catalog of *)
(* tasks by task id; a repeat submission of a task that is in the catalog  *)
(* shares the existing task (`callers` counts the stakeholders); an entry  *)
(* leaves the catalog when every caller has retrieved the result, when the *)
(* task is cancelled by its last caller, or - submit_and_forget - when the *)
(* future completes (done-callback).                                       *)
(*                                                                         *)
(* One action per public call (the calls are made one at a time by the     *)
(* replay) plus the executor finishing the running task.  The executor has *)
(* ONE worker: the earliest pending task is the running one (its future    *)
(* can no longer be cancelled), the others are queued.                     *)
(*                                                                         *)
(* The catalog is keyed by task id only, and every removal in the code is  *)
(* `del catalog[task_id]`: it removes WHATEVER task is listed under the id *)
(* - also a newer task of the same id - and raises KeyError if nothing is. *)
(* OwnEntryOnly = FALSE models exactly that (as found); TRUE models "remove *)
(* the entry only if it is this task's own; a missing entry is fine".      *)
(***************************************************************************)
EXTENDS Integers, Sequences, FiniteSets, TLC

CONSTANTS Ids, MaxGen, OwnEntryOnly

VARIABLES
  tasks,   \* sequence of tasks ever created: [id, callers, retrieved, fut, cflag, cb]
           \*   fut: "pending" | "ok" | "err" | "fcancelled";  cflag: the cancel event;  cb: forget-callback attached
  cat,     \* the catalog: [Ids -> 0 .. MaxGen] (0: not listed)
  act      \* the last call and what it returned / raised

vars == <<tasks, cat, act>>
T == 1..Len(tasks)

Pending(t) == tasks[t].fut = "pending"
Running == IF \E t \in T : Pending(t) THEN CHOOSE t \in T : Pending(t) /\ \A u \in 1..(t - 1) : ~Pending(u) ELSE 0
FutDone(t) == ~Pending(t)

\* `del catalog[id]` executed on behalf of task t
Del(c, t) == LET i == tasks[t].id IN
  IF OwnEntryOnly THEN (IF c[i] = t THEN [c EXCEPT ![i] = 0] ELSE c) ELSE [c EXCEPT ![i] = 0]
Missing(c, t) == ~OwnEntryOnly /\ c[tasks[t].id] = 0          \* KeyError (as found)

Init ==
  /\ tasks = <<>> /\ cat = [i \in Ids |-> 0]
  /\ act = [name |-> "init", arg |-> 0, ret |-> "none"]

NewTask(i) == [id |-> i, callers |-> 1, retrieved |-> 0, fut |-> "pending", cflag |-> FALSE, cb |-> FALSE]

\* the state after `submit(i)`: <<tasks, cat, index of the task returned>>
AfterSubmit(i) ==
  IF cat[i] # 0
    THEN LET t == cat[i]
             c1 == tasks[t].callers + 1
         IN <<[tasks EXCEPT ![t].callers = c1, ![t].cb = IF c1 = 1 THEN FALSE ELSE @], cat, t>>
    ELSE <<Append(tasks, NewTask(i)), [cat EXCEPT ![i] = Len(tasks) + 1], Len(tasks) + 1>>

Submit(i) ==
  /\ cat[i] # 0 \/ Len(tasks) < MaxGen
  /\ LET s == AfterSubmit(i) IN
       /\ tasks' = s[1] /\ cat' = s[2]
       /\ act' = [name |-> "submit", arg |-> i, ret |-> ToString(s[3])]

\* submit, then: `if task.callers == 1: add_done_callback(remove)` (a callback added to a finished future runs at once);
\* `task.callers -= 1`
SubmitForget(i) ==
  /\ cat[i] # 0 \/ Len(tasks) < MaxGen
  /\ LET s == AfterSubmit(i)
         ts == s[1]
         t == s[3]
         one == ts[t].callers = 1
         now == one /\ ts[t].fut # "pending"
     IN /\ tasks' = [ts EXCEPT ![t].callers = @ - 1, ![t].cb = IF one /\ ~now THEN TRUE ELSE @]
        /\ cat' = IF now THEN [s[2] EXCEPT ![i] = 0] ELSE s[2]       \* entry exists: submit just found / made it
        /\ act' = [name |-> "forget", arg |-> i, ret |-> "none"]

\* the running task returns / raises; a forget-callback removes the entry under its id (a missing entry: the KeyError is
\* swallowed by concurrent.futures)
Finish(o) ==
  /\ Running # 0 /\ o \in {"ok", "err"}
  /\ LET t == Running IN
       /\ tasks' = [tasks EXCEPT ![t].fut = o]
       /\ cat' = IF tasks[t].cb THEN Del(cat, t) ELSE cat
  /\ act' = [name |-> "finish", arg |-> Running, ret |-> o]

\* Task.cancel(wait=False)
Cancel(t) ==
  /\ t \in T
  /\ IF tasks[t].cflag THEN /\ UNCHANGED <<tasks, cat>>
                            /\ act' = [name |-> "cancel", arg |-> t, ret |-> "True"]
     ELSE LET c1 == tasks[t].callers - 1 IN
       IF c1 > 0 \/ FutDone(t)
         THEN /\ tasks' = [tasks EXCEPT ![t].callers = c1] /\ cat' = cat
              /\ act' = [name |-> "cancel", arg |-> t, ret |-> "False"]
         ELSE LET queued == t # Running                          \* Future.cancel() succeeds only for a queued task
                  c2 == IF queued /\ tasks[t].cb THEN Del(cat, t) ELSE cat     \* callbacks of the cancelled future
              IN /\ tasks' = [tasks EXCEPT ![t].callers = c1, ![t].cflag = TRUE,
                                           ![t].fut = IF queued THEN "fcancelled" ELSE @]
                 /\ IF Missing(c2, t)
                      THEN cat' = c2 /\ act' = [name |-> "cancel", arg |-> t, ret |-> "KeyError"]
                      ELSE cat' = Del(c2, t) /\ act' = [name |-> "cancel", arg |-> t, ret |-> "True"]

\* Task.result(timeout=0) on a task whose answer is available (or that was cancelled)
Result(t) ==
  /\ t \in T /\ (tasks[t].cflag \/ FutDone(t))
  /\ IF tasks[t].cflag
       THEN UNCHANGED <<tasks, cat>> /\ act' = [name |-> "result", arg |-> t, ret |-> "CancelledError"]
       ELSE LET r1 == tasks[t].retrieved + 1 IN
            /\ tasks' = [tasks EXCEPT ![t].retrieved = r1]
            /\ cat' = IF r1 >= tasks[t].callers THEN Del(cat, t) ELSE cat     \* a missing entry is tolerated here
            /\ act' = [name |-> "result", arg |-> t, ret |-> tasks[t].fut]

\* Task.exception(): a pure read
ExceptionOf(t) ==
  /\ t \in T /\ UNCHANGED <<tasks, cat>>
  /\ act' = [name |-> "exception", arg |-> t,
             ret |-> IF tasks[t].cflag THEN "CancelledError" ELSE IF tasks[t].fut = "err" THEN "exc" ELSE "none"]

Next ==
  \/ \E i \in Ids : Submit(i) \/ SubmitForget(i)
  \/ \E o \in {"ok", "err"} : Finish(o)
  \/ \E t \in T : Cancel(t) \/ Result(t) \/ ExceptionOf(t)

Spec == Init /\ [][Next]_vars

-----------------------------------------------------------------------------
Interested(t) == Pending(t) /\ ~tasks[t].cflag

TypeOK == /\ cat \in [Ids -> 0..MaxGen] /\ Len(tasks) <= MaxGen
          /\ \A t \in T : tasks[t].retrieved >= 0 /\ tasks[t].fut \in {"pending", "ok", "err", "fcancelled"}
\* an entry of the catalog is a task of that id
CatSound == \A i \in Ids : cat[i] # 0 => cat[i] \in T /\ tasks[cat[i]].id = i
\* a cancelled future belongs to a task whose cancel flag is set; the running task is never "fcancelled"
FlagBeforeFuture == \A t \in T : tasks[t].fut = "fcancelled" => tasks[t].cflag
\* the docstring's promise: "a repeat submission of an existing task (same ID) will simply get access to the existing task
\* rather than making a new submission" - two uncancelled tasks of one id are never in progress at the same time
NoDuplicateRun == \A t, u \in T : (t # u /\ tasks[t].id = tasks[u].id) => ~(Interested(t) /\ Interested(u))
\* a task in progress with a stakeholder is listed under its id (that is what a repeat submission looks up)
InProgressListed == \A t \in T : (Interested(t) /\ tasks[t].callers > 0) => cat[tasks[t].id] = t
\* bookkeeping never fails into the caller's face
NoKeyError == act.ret # "KeyError"

\* bound for TLC: the counters are unbounded in the code (every repeat submission / repeated result() call counts)
Bounded == \A t \in T : tasks[t].callers \in -1..2 /\ tasks[t].retrieved <= 2

Trap_Shared == ~(\E t \in T : tasks[t].callers >= 2)
Trap_Forgotten == ~(\E t \in T : tasks[t].cb /\ tasks[t].callers = 0)
Trap_QueuedCancelled == ~(\E t \in T : tasks[t].fut = "fcancelled")
Trap_SecondGeneration == ~(\E t, u \in T : t < u /\ tasks[t].id = tasks[u].id)
=============================================================================
