--------------------------- MODULE RefCountTrace ---------------------------
(* Validates histories executed on the REAL ServerProcess (mbt/bind/refcount.py: seeded random commands issued to    *)
(* client interpreter processes, sometimes two at once) against RefCount.  Logged: every command (= external action  *)
(* with its ids) and, after each step, an observation `Obs`: server debug_info refcounts, the handles every process  *)
(* holds (each has just answered a call), the keys of the hosted containers, /dev/shm/<name>.  Silent: the            *)
(* continuation of a synchronous call (reply / argument rebuilt: +1, -1), the server dropping a temporary,            *)
(* destruction at zero, shm unlink.  An observation may be taken while such a step is still pending; the last one     *)
(* (after every process has exited and a long quiet period) must be of a quiet state.                                 *)
EXTENDS RefCount, Sequences, Json, IOUtils, TLCExt

TraceLog == JsonDeserialize(IOEnv.TRACE_FILE)
VARIABLES tid, l
tvars == <<vars, tid, l>>

Evs == TraceLog[tid].ev
E == Evs[l]
Is(name) == l <= Len(Evs) /\ E.ev = name
Step == l' = l + 1 /\ tid' = tid
Silent == l' = l /\ tid' = tid
ToSet(s) == {s[k] : k \in DOMAIN s}

TraceInit ==
  \E t \in 1..Len(TraceLog) :
     /\ tid = t /\ l = 1 /\ Init
     /\ TLCSet(t, <<1, "init", "none">>)

TCreate  == Is("Create") /\ Create(E.p, E.o, E.via, E.i) /\ Step
TPickle  == Is("Pickle") /\ Pickle(E.x, E.kind, E.to, E.i) /\ Step
TRebuild == Is("RebuildMsg") /\ RebuildMsg(E.i) /\ Step
TInherit == Is("RebuildInheriting") /\ RebuildInheriting(E.i) /\ Step
TDelete  == Is("Delete") /\ Delete(E.x) /\ Step
TPop     == Is("PopFrom") /\ PopFrom(E.p, E.y, E.i) /\ Step
TDel     == Is("DelFrom") /\ DelFrom(E.p, E.y) /\ Step
TGet     == Is("GetFrom") /\ GetFrom(E.p, E.y, E.i) /\ Step
TExit    == Is("ProcessExit") /\ ProcessExit(E.p) /\ Step

HeldIds(h) == {x.id : x \in {y \in proxies : y.holder = h}}
TObs ==
  /\ Is("Obs")
  /\ \A o \in DOMAIN E.rc : refcount[o] = E.rc[o] /\ ((alive[o] = "yes") <=> (E.al[o] = "yes"))
  /\ \A b \in DOMAIN E.shm : (shm[b] = "yes") <=> (E.shm[b] = "yes")
  /\ \A p \in DOMAIN E.held : ToSet(E.held[p]) = HeldIds(p)
  /\ \A c \in DOMAIN E.clen : /\ (E.clen[c] >= 0 => Cardinality(HeldIds(c)) = E.clen[c])
                              /\ (E.cex[c] => ToSet(E.cont[c]) = HeldIds(c))
  /\ E.extra = 0
  /\ (E.final => ~Pending)
  /\ UNCHANGED vars /\ Step

TSilent ==
  /\ \/ \E t \in tmp : ServerDropTmpR(t)
     \/ \E t \in transit : (t.kind \in {"reply", "store"} /\ RebuildIncR(t)) \/ RebuildDecR(t)
     \/ \E o \in Objs : DestroyAtZero(o) \/ ShmUnlink(o)
  /\ Silent

TraceNext == TCreate \/ TPickle \/ TRebuild \/ TInherit \/ TDelete \/ TPop \/ TDel \/ TGet \/ TExit \/ TObs \/ TSilent
TraceSpec == TraceInit /\ [][TraceNext]_tvars

FailedInv ==
  IF ~Count THEN "Count" ELSE IF ~NoPrematureDestroy THEN "NoPrematureDestroy"
  ELSE IF ~ShmSafe THEN "ShmSafe" ELSE IF ~HoldersExist THEN "HoldersExist" ELSE "none"

Progress ==
  IF FailedInv # "none"
    THEN TLCSet(tid, <<TLCGet(tid)[1], TLCGet(tid)[2], FailedInv>>) /\ FALSE
    ELSE IF TLCGet(tid)[1] < l
           THEN TLCSet(tid, <<l, <<refcount, alive, shm, Cardinality(proxies), Cardinality(transit), Cardinality(tmp), pstate>>,
                               TLCGet(tid)[3]>>)
           ELSE TRUE

Report ==
  \A t \in 1..Len(TraceLog) :
     PrintT(<<"VERDICT", t, TLCGet(t)[1], Len(TraceLog[t].ev), TLCGet(t)[2], TLCGet(t)[3]>>)
=============================================================================
