------------------------------ MODULE StreamOps ------------------------------
(***************************************************************************)
(* C03 - the documented SEQUENTIAL MEANING of the operators of             *)
(* mpservice.streamer.Stream (streamer/_streamer.py 83-800, 877-963,       *)
(* 1209-1290), written down independently of the code, plus every          *)
(* operator as a PULL AUTOMATON (how many next() calls it makes on its     *)
(* input for D next() calls on its output).                                *)
(*                                                                         *)
(* A behaviour is the construction of one pipeline, exactly as the code    *)
(* builds it: Init chooses the source; every step is one chained method    *)
(* call `.op(...)` that appends one streamlet.  Every reachable state      *)
(* <<input, prog, stages>> is therefore one (input, program) CASE whose    *)
(* last stage holds the expected output and/or the expected raised         *)
(* element.  TLC enumerates the whole space within the bounds; the         *)
(* invariant `ExportI` prints every case (JSON) and the binder             *)
(* mbt/bind/streamops.py runs it on the real Stream.                        *)
(*                                                                         *)
(* Data.  Elements are tagged records (the tag is compared first, so TLC   *)
(* never compares an integer with a sequence):                             *)
(*     [t |-> "int",  v |-> n]        an int                                *)
(*     [t |-> "exc",  v |-> k]        an exception OBJECT travelling in the  *)
(*                                    stream; k = "V" ValueError, "K"       *)
(*                                    KeyError, "U" the harness' UserErr    *)
(*                                    (raised by a catalogue function),     *)
(*                                    "T" TypeError (unbatch of a non-iterable)*)
(*     [t |-> "list", v |-> <<..>>]   a list or tuple (batches, groups, pairs, *)
(*                                    nested lists)                         *)
(* A stream is [items |-> <<elements>>, err |-> None | element]: the        *)
(* elements it yields and then how it ends (normally, or by raising).      *)
(*                                                                         *)
(* User functions are a fixed catalogue, total on the alphabet (see FVal,  *)
(* Pred, Key, AccF); the binder has the Python counterparts.               *)
(***************************************************************************)
EXTENDS Integers, Sequences, FiniteSets, TLC, Json

CONSTANTS
  MaxLen,     \* longest source
  MaxDepth,   \* longest program
  Export,     \* print cases
  ListSelector,  \* filter_exceptions(drop_exc_types=[]): TRUE = as documented ("None (the default) or () or []": nothing is
                 \* dropped); FALSE = the code as found: isinstance(x, []) is a TypeError as soon as an exception object
                 \* that is not kept arrives (finding D20)
  NParts, Part,          \* this run enumerates the sources whose checksum is Part (mod NParts)
  SampleMod, SampleRes   \* export only cases whose checksum is SampleRes (mod SampleMod); 1, 0 = all

VARIABLES
  input,   \* indices into Alphabet: the source elements
  prog,    \* sequence of operator descriptors applied so far
  stages   \* stages[1] = the source as a stream, stages[j+1] = stream after prog[j]

vars == <<input, prog, stages>>

-----------------------------------------------------------------------------
(* elements                                                                *)
I(n)   == [t |-> "int", v |-> n]
X(k)   == [t |-> "exc", v |-> k]
Lst(s) == [t |-> "list", v |-> s]
None   == [t |-> "none", v |-> 0]
Nil    == [t |-> "nil", v |-> 0]      \* the Python value None as an ELEMENT of a stream (an ordinary element)

IsInt(x)  == x.t = "int"
IsExc(x)  == x.t = "exc"
IsList(x) == x.t = "list"

Alphabet == << I(1), I(2), X("V"), X("K"), Lst(<<>>), Lst(<< I(1), Lst(<< I(2) >>) >>) >>

Str(items, err) == [items |-> items, err |-> err]
Ok(S) == S.err.t = "none"

Min(a, b) == IF a < b THEN a ELSE b
Max(a, b) == IF a > b THEN a ELSE b

\* first position whose element satisfies P, 0 if none
FirstIdx(s, P(_)) ==
  IF \E i \in 1..Len(s) : P(s[i])
    THEN CHOOSE i \in 1..Len(s) : P(s[i]) /\ \A j \in 1..(i-1) : ~P(s[j])
    ELSE 0

Prefix(s, n) == SubSeq(s, 1, n)

RECURSIVE Flat(_)
Flat(ss) == IF Len(ss) = 0 THEN <<>> ELSE Head(ss) \o Flat(Tail(ss))

-----------------------------------------------------------------------------
(* the catalogue of user functions                                         *)

\* map / parmap functions: "inc" (ints + 1, others unchanged), "wrap" (x -> [x]), "fail2" (raises UserErr on the int 2)
Fails(f, x) == f = "fail2" /\ IsInt(x) /\ x.v = 2
FVal(f, x)  == CASE f = "inc"  -> IF IsInt(x) THEN I(x.v + 1) ELSE x
                 [] f = "wrap" -> Lst(<<x>>)
                 [] OTHER      -> x
\* filter predicates
Pred(g, x)  == CASE g = "odd"     -> IsInt(x) /\ x.v % 2 = 1
                 [] g = "nonlist" -> ~IsList(x)
\* groupby keys
Key(kf, x)  == CASE kf = "par" -> IF IsInt(x) THEN x.v % 2 ELSE IF IsExc(x) THEN 2 ELSE 3
                 [] OTHER      -> 0
\* accumulate functions on (z, x); a non-int counts as 0
IntOf(x)    == IF IsInt(x) THEN x.v ELSE 0
AccF(f, z, x) == CASE f = "sum" -> I(IntOf(z) + IntOf(x))
                   [] OTHER     -> I(IntOf(z) + 1)

-----------------------------------------------------------------------------
(* SEQUENTIAL MEANING: one operator, stream -> stream                      *)

\* map(func): 1-to-1; an exception raised by func ends the stream there
MapS(f, S) ==
  LET j == FirstIdx(S.items, LAMBDA x : Fails(f, x)) IN
  IF j = 0 THEN Str([i \in 1..Len(S.items) |-> FVal(f, S.items[i])], S.err)
           ELSE Str([i \in 1..(j-1) |-> FVal(f, S.items[i])], X("U"))

\* filter(func): keeps the elements for which func is true
FilterS(g, S) == Str(SelectSeq(S.items, LAMBDA x : Pred(g, x)), S.err)

\* filter_exceptions(drop, keep): exception objects of a `keep` type stay (checked first), of a `drop` type go,
\* any other exception object is RAISED; non-exceptions stay.  "none", "empty" (the tuple ()) and "elist" (the list [])
\* select nothing - the docstring says "None (the default) or () or []".
Matches(sel, k) == sel = "all" \/ sel = k
FxKeep(drop, keep, x)  == ~IsExc(x) \/ Matches(keep, x.v)
FxRaise(drop, keep, x) == IsExc(x) /\ ~Matches(keep, x.v) /\ ~Matches(drop, x.v)
FilterExcS(drop, keep, S) ==
  LET j   == FirstIdx(S.items, LAMBDA x : FxRaise(drop, keep, x))
      pre == IF j = 0 THEN S.items ELSE Prefix(S.items, j - 1) IN
  Str(SelectSeq(pre, LAMBDA x : FxKeep(drop, keep, x)),
      IF j = 0 THEN S.err ELSE IF drop = "elist" /\ ~ListSelector THEN X("T") ELSE S.items[j])

\* peek: prints, changes nothing
PeekS(S) == S

\* head(n): the first n elements.  It learns that it is done by pulling element n+1, so an upstream failure
\* AFTER more than n elements is never seen, one at or before position n+1 is.
HeadS(n, S) == IF Len(S.items) > n THEN Str(Prefix(S.items, n), None) ELSE S

\* tail(n): the last n elements, known only at the end of the input
TailS(n, S) ==
  IF ~Ok(S) THEN Str(<<>>, S.err)
  ELSE LET L == Len(S.items) IN Str(SubSeq(S.items, Max(1, L - n + 1), L), None)

\* batch(b): lists of b consecutive elements, the last one possibly shorter; a partial batch dies with a failure
BatchS(b, S) ==
  LET L == Len(S.items)
      q == L \div b
      full == [i \in 1..q |-> Lst(SubSeq(S.items, (i-1)*b + 1, i*b))] IN
  IF Ok(S) /\ L % b # 0 THEN Str(Append(full, Lst(SubSeq(S.items, q*b + 1, L))), None)
                       ELSE Str(full, S.err)

\* unbatch: concatenation of the lists; a non-iterable element is a TypeError
UnbatchS(S) ==
  LET j   == FirstIdx(S.items, LAMBDA x : ~IsList(x))
      pre == IF j = 0 THEN S.items ELSE Prefix(S.items, j - 1) IN
  Str(Flat([i \in 1..Len(pre) |-> pre[i].v]), IF j = 0 THEN S.err ELSE X("T"))

\* groupby(key): maximal runs of consecutive elements with equal key
RECURSIVE RunsR(_, _, _)
RunsR(s, kf, acc) ==
  IF Len(s) = 0 THEN acc
  ELSE LET x == Head(s)
           k == Key(kf, x)
           n == Len(acc) IN
       IF n > 0 /\ acc[n].k = k
         THEN RunsR(Tail(s), kf, [acc EXCEPT ![n].m = Append(@, x)])
         ELSE RunsR(Tail(s), kf, Append(acc, [k |-> k, m |-> <<x>>]))
Runs(s, kf) == RunsR(s, kf, <<>>)

\* The groups are lazy sub-iterators; three ways of consuming them (as the downstream map function):
\*   "now"   (key, list(group))  consumed immediately: finding the end of a run needs the next element, so the run
\*                               that is being read when the input fails is lost
\*   "keys"  key                 never consumed: the rest of each run is skipped
\*   "first" (key, next(group))  only the element that announced the run
GroupS(kf, mode, S) ==
  LET r == Runs(S.items, kf)
      n == Len(r) IN
  CASE mode = "now"  -> LET m == IF Ok(S) THEN n ELSE Max(0, n - 1) IN
                        Str([i \in 1..m |-> Lst(<< I(r[i].k), Lst(r[i].m) >>)], S.err)
    [] mode = "keys" -> Str([i \in 1..n |-> I(r[i].k)], S.err)
    [] OTHER         -> Str([i \in 1..n |-> Lst(<< I(r[i].k), r[i].m[1] >>)], S.err)

\* accumulate(func, initializer)
RECURSIVE AccR(_, _, _, _)
AccR(s, f, z, out) ==
  IF Len(s) = 0 THEN out
  ELSE LET z2 == AccF(f, z, Head(s)) IN AccR(Tail(s), f, z2, Append(out, z2))
AccS(f, hasInit, init, S) ==
  IF Len(S.items) = 0 THEN S
  ELSE IF hasInit THEN Str(AccR(S.items, f, I(init), <<>>), S.err)
  ELSE Str(AccR(Tail(S.items), f, S.items[1], << S.items[1] >>), S.err)

\* buffer(m): the identity (elements in order, then the same end)
BufferS(S) == S

\* parmap(func, return_exceptions, return_x): map; with return_exceptions the exception object takes the element's
\* place; with return_x the outputs are pairs (x, y)
ParmapS(f, how, S) ==
  CASE how = "retexc" -> Str([i \in 1..Len(S.items) |-> IF Fails(f, S.items[i]) THEN X("U") ELSE FVal(f, S.items[i])], S.err)
    [] how = "retx"   -> LET M == MapS(f, S) IN
                         Str([i \in 1..Len(M.items) |-> Lst(<< S.items[i], M.items[i] >>)], M.err)
    [] OTHER          -> MapS(f, S)

\* shuffle: SOME permutation
IsPermutation(a, b) ==
  /\ Len(a) = Len(b)
  /\ \A i \in 1..Len(a) :
        Cardinality({j \in 1..Len(a) : a[j] = a[i]}) = Cardinality({j \in 1..Len(b) : b[j] = a[i]})
Perms(s) == { [i \in 1..Len(s) |-> s[f[i]]] : f \in Permutations(1..Len(s)) }

\* descriptor of one chained call
Op(op, a, b, n) == [op |-> op, a |-> a, b |-> b, n |-> n]

\* meaning of every operator but shuffle
Sem(d, S) ==
  CASE d.op = "map"      -> MapS(d.a, S)
    [] d.op = "filter"   -> FilterS(d.a, S)
    [] d.op = "fexc"     -> FilterExcS(d.a, d.b, S)
    [] d.op = "peek"     -> PeekS(S)
    [] d.op = "head"     -> HeadS(d.n, S)
    [] d.op = "tail"     -> TailS(d.n, S)
    [] d.op = "batch"    -> BatchS(d.n, S)
    [] d.op = "unbatch"  -> UnbatchS(S)
    [] d.op = "groupby"  -> GroupS(d.a, d.b, S)
    [] d.op = "acc"      -> AccS(d.a, d.b = "init", d.n, S)
    [] d.op = "buffer"   -> BufferS(S)
    [] d.op = "parmap"   -> ParmapS(d.a, d.b, S)
    [] d.op = "shuffle"  -> S      \* representative only: see `perm` below and Conf

RECURSIVE Run(_, _)
Run(pr, S) == IF Len(pr) = 0 THEN S ELSE Run(Tail(pr), Sem(Head(pr), S))

\* Does an observation A of the real pipeline agree with the meaning of program `pr` on `S`?  (used by StreamOpsCheck
\* on executions recorded from the real code.)  A = [items, err, n, full]: with `full` the yielded elements were seen
\* (iteration, collect), otherwise only their number n (drain; n = -1 if it raised).  shuffle = ANY permutation; when
\* its input fails, what it emitted before is any arrangement of any Len - buffer_size of the elements.
Final(S, A) == /\ S.err = A.err
               /\ IF A.full THEN S.items = A.items ELSE (A.n = -1 \/ A.n = Len(S.items))
SubArrangement(a, b, n) ==   \* a is an arrangement of n of the elements of b
  /\ Len(a) = n
  /\ \A i \in 1..Len(a) :
        Cardinality({j \in 1..Len(a) : a[j] = a[i]}) <= Cardinality({j \in 1..Len(b) : b[j] = a[i]})
RECURSIVE Conf(_, _, _)
Conf(pr, S, A) ==
  IF Len(pr) = 0 THEN Final(S, A)
  ELSE LET d == Head(pr) IN
       IF d.op # "shuffle" THEN Conf(Tail(pr), Sem(d, S), A)
       ELSE IF Ok(S) /\ Len(pr) = 1 THEN      \* shuffle is the last operator: compare as bags
              /\ A.err = None
              /\ IF A.full THEN IsPermutation(S.items, A.items) ELSE (A.n = -1 \/ A.n = Len(S.items))
       ELSE IF Ok(S) THEN \E q \in Perms(S.items) : Conf(Tail(pr), Str(q, None), A)
       ELSE /\ A.err = S.err
            /\ IF A.full THEN SubArrangement(A.items, S.items, Max(0, Len(S.items) - d.n))
                         ELSE (A.n = -1 \/ A.n = Max(0, Len(S.items) - d.n))
\* (a failing input of a shuffle that is not the last operator is not decided)
RECURSIVE Decided(_, _)
Decided(pr, S) ==
  IF Len(pr) = 0 THEN TRUE
  ELSE IF Head(pr).op = "shuffle" THEN Ok(S) \/ Len(pr) = 1
  ELSE Decided(Tail(pr), Sem(Head(pr), S))

-----------------------------------------------------------------------------
(* PULL AUTOMATA.  For an operator d whose input is the (failure-free)     *)
(* stream S: Calls(d, S, D) = number of next() calls d makes on its input  *)
(* while answering D next() calls on its output, 0 <= D <= outputs + 1     *)
(* (the last call is the one answered by StopIteration).  A call on the    *)
(* input beyond its last element is the one that sees ITS end.             *)

RECURSIVE SumLen(_, _)      \* total length of the first j sequences of ss
SumLen(ss, j) == IF j = 0 THEN 0 ELSE Len(ss[j]) + SumLen(ss, j - 1)

\* smallest j with SumLen(ss, j) >= D, or Len(ss) + 1
FirstReach(ss, D) ==
  IF \E j \in 1..Len(ss) : SumLen(ss, j) >= D
    THEN CHOOSE j \in 1..Len(ss) : SumLen(ss, j) >= D /\ \A i \in 1..(j-1) : SumLen(ss, i) < D
    ELSE Len(ss) + 1

KeptPos(s, P(_), D) ==   \* position of the D-th element satisfying P, or Len + 1
  LET pos == SelectSeq([i \in 1..Len(s) |-> i], LAMBDA i : P(s[i])) IN
  IF D <= Len(pos) THEN pos[D] ELSE Len(s) + 1

Inline(d) == d.op \notin {"buffer", "parmap", "shuffle"}

Calls(d, S, D) ==
  LET L == Len(S.items) IN
  IF D = 0 THEN 0 ELSE
  CASE d.op \in {"map", "peek", "acc", "head"} -> D        \* head(n): call n+1 pulls element n+1 and stops
    [] d.op = "filter"  -> KeptPos(S.items, LAMBDA x : Pred(d.a, x), D)
    [] d.op = "fexc"    -> KeptPos(S.items, LAMBDA x : FxKeep(d.a, d.b, x), D)
    [] d.op = "tail"    -> L + 1
    [] d.op = "batch"   -> IF D <= L \div d.n THEN D * d.n ELSE L + 1
    [] d.op = "unbatch" -> FirstReach([i \in 1..L |-> S.items[i].v], D)
    [] d.op = "groupby" ->
         LET r  == Runs(S.items, d.a)
             rl == [i \in 1..Len(r) |-> r[i].m] IN
         IF d.b = "now" THEN Min(L + 1, SumLen(rl, Min(D, Len(r))) + 1)
         ELSE IF D <= Len(r) THEN SumLen(rl, D - 1) + 1 ELSE L + 1

\* look-ahead of the two threaded operators: at most this many calls beyond the D answered ones
Ahead(d) == IF d.op = "buffer" THEN d.n + 2 ELSE 2 * d.n + 3     \* parmap: capacity = 2 * concurrency

CallsLo(d, S, D) == IF Inline(d) THEN Calls(d, S, D) ELSE IF D = 0 THEN 0 ELSE Min(D, Len(S.items) + 1)
CallsHi(d, S, D) == IF Inline(d) THEN Calls(d, S, D) ELSE IF D = 0 THEN 0 ELSE Min(D + Ahead(d), Len(S.items) + 1)

\* demand D on the output of the first j operators -> calls on the source
RECURSIVE BackLo(_, _, _, _)
BackLo(pr, st, j, D) == IF j = 0 THEN D ELSE BackLo(pr, st, j - 1, CallsLo(pr[j], st[j], D))
RECURSIVE BackHi(_, _, _, _)
BackHi(pr, st, j, D) == IF j = 0 THEN D ELSE BackHi(pr, st, j - 1, CallsHi(pr[j], st[j], D))

\* Need(prog, k): source ELEMENTS pulled when k next() calls on the pipeline have been answered (lo = hi for inline chains)
NeedLo(pr, st, k) == Min(BackLo(pr, st, Len(pr), k), Len(st[1].items))
NeedHi(pr, st, k) == Min(BackHi(pr, st, Len(pr), k), Len(st[1].items))

\* the pull count is decided only for pipelines in which nothing fails and nothing is shuffled
NeedDefined(pr, st) == (\A j \in 1..Len(st) : Ok(st[j])) /\ (\A j \in 1..Len(pr) : pr[j].op # "shuffle")
\* row k+1 = << lo, hi >> for k answered calls, k = 0 .. outputs + 1 (built with Append: an explicit tuple, evaluated once)
RECURSIVE NeedRows(_, _, _)
NeedRows(pr, st, k) ==
  IF k < 0 THEN <<>> ELSE Append(NeedRows(pr, st, k - 1), << NeedLo(pr, st, k), NeedHi(pr, st, k) >>)
NeedTable(pr, st) ==
  IF NeedDefined(pr, st) THEN NeedRows(pr, st, Len(st[Len(st)].items) + 1) ELSE <<>>

-----------------------------------------------------------------------------
(* BEHAVIOURS = construction of pipelines                                  *)

Cur == stages[Len(stages)]
Shuffled == Len(prog) > 0 /\ prog[Len(prog)].op = "shuffle"

Bnd(S) == {1, 2, Len(S.items), Len(S.items) + 1} \ {0}      \* boundary parameters 1, len, len+1 (and 2: strictly inside)

Letters(op, S) ==
  CASE op = "map"     -> { Op("map", f, "", 0) : f \in {"inc", "wrap", "fail2"} }
    [] op = "filter"  -> { Op("filter", g, "", 0) : g \in {"odd", "nonlist"} }
    [] op = "fexc"    -> { Op("fexc", c[1], c[2], 0) : c \in { <<"none", "none">>, <<"V", "none">>, <<"all", "none">>,
                                                            <<"none", "K">>, <<"all", "V">>, <<"V", "all">>,
                                                            <<"empty", "none">>, <<"elist", "none">> } }
    [] op = "peek"    -> { Op("peek", "", "", 0) }
    [] op = "head"    -> { Op("head", "", "", n) : n \in Bnd(S) }
    [] op = "tail"    -> { Op("tail", "", "", n) : n \in Bnd(S) }
    [] op = "batch"   -> { Op("batch", "", "", n) : n \in Bnd(S) }
    [] op = "unbatch" -> { Op("unbatch", "", "", 0) }
    [] op = "groupby" -> { Op("groupby", c[1], c[2], 0) : c \in { <<"par", "now">>, <<"par", "keys">>, <<"par", "first">>,
                                                                <<"const", "now">> } }
    [] op = "acc"     -> { Op("acc", "sum", "notset", 0), Op("acc", "sum", "init", 10), Op("acc", "cnt", "init", 10) }
    [] op = "buffer"  -> { Op("buffer", "", "", n) : n \in Bnd(S) }
    [] op = "parmap"  -> { Op("parmap", "inc", "raise", 1), Op("parmap", "fail2", "raise", 2),
                           Op("parmap", "fail2", "retexc", 2), Op("parmap", "wrap", "raise", 2),
                           Op("parmap", "inc", "retx", 2) }
    [] op = "shuffle" -> { Op("shuffle", "", "", n) : n \in {1, Len(S.items) + 1} }

RECURSIVE WSum(_, _)
WSum(f, n) == IF n = 0 THEN 0 ELSE n * f[n] + WSum(f, n - 1)

Init ==
  /\ \E n \in 0..MaxLen : \E f \in [1..n -> 1..Len(Alphabet)] :
        /\ (WSum(f, n) + n) % NParts = Part
        /\ input = f
  /\ prog = <<>>
  /\ stages = << Str([i \in 1..Len(input) |-> Alphabet[input[i]]], None) >>

CanApply == Len(prog) < MaxDepth /\ ~Shuffled
Step(d)  == prog' = Append(prog, d) /\ stages' = Append(stages, Sem(d, Cur)) /\ UNCHANGED input

AMap        == CanApply /\ \E d \in Letters("map", Cur) : Step(d)
AFilter     == CanApply /\ \E d \in Letters("filter", Cur) : Step(d)
AFilterExc  == CanApply /\ \E d \in Letters("fexc", Cur) : Step(d)
APeek       == CanApply /\ \E d \in Letters("peek", Cur) : Step(d)
AHead       == CanApply /\ \E d \in Letters("head", Cur) : Step(d)
ATail       == CanApply /\ \E d \in Letters("tail", Cur) : Step(d)
ABatch      == CanApply /\ \E d \in Letters("batch", Cur) : Step(d)
AUnbatch    == CanApply /\ \E d \in Letters("unbatch", Cur) : Step(d)
AGroupBy    == CanApply /\ \E d \in Letters("groupby", Cur) : Step(d)
AAccumulate == CanApply /\ \E d \in Letters("acc", Cur) : Step(d)
ABuffer     == CanApply /\ \E d \in Letters("buffer", Cur) : Step(d)
AParmap     == CanApply /\ \E d \in Letters("parmap", Cur) : Step(d)
\* shuffle is always the last operator of an enumerated program; its expected result is "any permutation"
AShuffle    == CanApply /\ \E d \in Letters("shuffle", Cur) : Step(d)

Next == \/ AMap \/ AFilter \/ AFilterExc \/ APeek \/ AHead \/ ATail \/ ABatch \/ AUnbatch \/ AGroupBy
        \/ AAccumulate \/ ABuffer \/ AParmap \/ AShuffle

Spec == Init /\ [][Next]_vars

-----------------------------------------------------------------------------
(* What TLC checks on the meaning itself (all inputs x programs in bounds) *)

RECURSIVE ElemOK(_)
ElemOK(x) == \/ x.t = "int" /\ x.v \in Nat
             \/ x.t = "exc" /\ x.v \in {"V", "K", "U", "T"}
             \/ x.t = "list" /\ \A i \in 1..Len(x.v) : ElemOK(x.v[i])
             \/ x = Nil
StreamOK(S) == (\A i \in 1..Len(S.items) : ElemOK(S.items[i])) /\ (Ok(S) \/ IsExc(S.err))

TypeOK == /\ Len(stages) = Len(prog) + 1 /\ Len(prog) <= MaxDepth
          /\ \A j \in 1..Len(stages) : StreamOK(stages[j])

IsPrefixOf(a, b) == Len(a) <= Len(b) /\ a = Prefix(b, Len(a))
IsSuffixOf(a, b) == Len(a) <= Len(b) /\ a = SubSeq(b, Len(b) - Len(a) + 1, Len(b))
RECURSIVE IsSubseq(_, _)
IsSubseq(a, b) == IF Len(a) = 0 THEN TRUE ELSE IF Len(b) = 0 THEN FALSE
                  ELSE IF Head(a) = Head(b) THEN IsSubseq(Tail(a), Tail(b)) ELSE IsSubseq(a, Tail(b))

\* algebraic laws every step must satisfy (A = stream before, B = after the operator d)
Law(d, A, B) ==
  /\ (~Ok(A) /\ Ok(B)) => (d.op = "head" /\ Len(A.items) > d.n)     \* only head can outrun an upstream failure
  /\ CASE d.op \in {"map", "acc", "parmap"} ->
            /\ Len(B.items) <= Len(A.items)
            /\ Len(B.items) = Len(A.items) => B.err = A.err
            /\ Len(B.items) < Len(A.items) => B.err = X("U")       \* the user function raised
       [] d.op \in {"peek", "buffer", "shuffle"} -> B = A
       [] d.op = "filter" -> IsSubseq(B.items, A.items) /\ B.err = A.err
       [] d.op = "fexc"   -> /\ IsSubseq(B.items, A.items)      \* it raises nothing but elements of the stream
                             /\ B.err = A.err \/ \E i \in 1..Len(A.items) : A.items[i] = B.err
       [] d.op = "head"  -> IsPrefixOf(B.items, A.items) /\ Len(B.items) = Min(d.n, Len(A.items))
       [] d.op = "tail"  -> IsSuffixOf(B.items, A.items) /\ (Ok(A) => Len(B.items) = Min(d.n, Len(A.items)))
       [] d.op = "batch" ->
            /\ \A i \in 1..Len(B.items) : IsList(B.items[i]) /\ Len(B.items[i].v) \in 1..d.n
            /\ \A i \in 1..(Len(B.items) - 1) : Len(B.items[i].v) = d.n
            /\ LET flat == Flat([i \in 1..Len(B.items) |-> B.items[i].v]) IN
               IF Ok(A) THEN flat = A.items ELSE IsPrefixOf(flat, A.items) /\ Len(A.items) - Len(flat) < d.n
            /\ UnbatchS(B) = (IF Ok(A) THEN A ELSE Str(Flat([i \in 1..Len(B.items) |-> B.items[i].v]), A.err))
       [] d.op = "unbatch" -> Ok(A) /\ Ok(B) => Len(B.items) = SumLen([i \in 1..Len(A.items) |-> A.items[i].v], Len(A.items))
       [] d.op = "groupby" ->
            /\ Len(B.items) <= Len(A.items)
            /\ d.b = "now" /\ Ok(A) => Flat([i \in 1..Len(B.items) |-> B.items[i].v[2].v]) = A.items
            /\ \A i \in 1..(Len(B.items) - 1) :     \* neighbouring groups differ in key
                 LET k(j) == IF d.b = "keys" THEN B.items[j].v ELSE B.items[j].v[1].v IN k(i) # k(i + 1)
\* (the earlier steps of a program were checked in the states of its prefixes)
Laws == Len(prog) > 0 => Law(prog[Len(prog)], stages[Len(prog)], Cur)

\* Run (used for recorded executions) and the step-wise construction agree
RunAgrees == Shuffled \/ Run(prog, stages[1]) = Cur

\* pull counts: nothing is pulled by construction, demand is monotone, a full drain of a pipeline without
\* head/threads pulls everything, a chain of 1-to-1 inline operators pulls exactly k for k outputs
OneToOne(d) == d.op \in {"map", "peek", "acc"}
RECURSIVE AheadSum(_, _)
AheadSum(pr, j) == IF j = 0 THEN 0 ELSE (IF Inline(pr[j]) THEN 0 ELSE Ahead(pr[j])) + AheadSum(pr, j - 1)
NeedLaws ==
  NeedDefined(prog, stages) =>
    LET T == NeedTable(prog, stages)
        n == Len(T) IN
    /\ T[1] = <<0, 0>>
    /\ \A k \in 1..n : T[k][1] <= T[k][2] /\ T[k][2] <= Len(input)
    /\ \A k \in 1..(n - 1) : T[k][1] <= T[k + 1][1] /\ T[k][2] <= T[k + 1][2]
    /\ (\A j \in 1..Len(prog) : prog[j].op # "head") => T[n][1] = Len(input)
    /\ (\A j \in 1..Len(prog) : OneToOne(prog[j])) => \A k \in 1..n : T[k] = << Min(k - 1, Len(input)), Min(k - 1, Len(input)) >>
    /\ (\A j \in 1..Len(prog) : OneToOne(prog[j]) \/ ~Inline(prog[j])) =>       \* bounded look-ahead
          \A k \in 1..n : T[k][1] = Min(k - 1, Len(input)) /\ T[k][2] <= (k - 1) + AheadSum(prog, Len(prog))

-----------------------------------------------------------------------------
(* EXPORT: one JSON line per case                                          *)

RECURSIVE OpSum(_, _)
OpSum(pr, j) == IF j = 0 THEN 0 ELSE j * (Len(pr[j].op) + Len(pr[j].a) + 3 * Len(pr[j].b) + pr[j].n) + OpSum(pr, j - 1)
CaseSum == WSum(input, Len(input)) + 7 * OpSum(prog, Len(prog))

\* compact encoding: an int is a JSON number, an exception object the string of its kind, a list a JSON array
RECURSIVE Enc(_)
Enc(x) == IF IsInt(x) THEN x.v ELSE IF IsExc(x) THEN x.v ELSE IF IsList(x) THEN [i \in 1..Len(x.v) |-> Enc(x.v[i])]
          ELSE IF x = Nil THEN "N" ELSE ""
EncSeq(s) == [i \in 1..Len(s) |-> Enc(s[i])]

\* <<source (alphabet indices), program (<<op, a, b, n>>), expected elements, expected raised element or "", shuffled?, need table>>
Case == << input, [j \in 1..Len(prog) |-> << prog[j].op, prog[j].a, prog[j].b, prog[j].n >>], EncSeq(Cur.items),
           Enc(Cur.err), Shuffled, NeedTable(prog, stages) >>

Sampled == CaseSum % SampleMod = SampleRes
ExportI == IF Export /\ Sampled THEN PrintT(ToJson(Case)) ELSE TRUE

\* for the largest configuration: the two expensive invariants on the exported cases only
SampledChecks == Sampled => (RunAgrees /\ NeedLaws)

ASSUME Export => PrintT(ToJson([alphabet |-> EncSeq(Alphabet)]))
=============================================================================
