---------------------------- MODULE ProcOutcome ----------------------------
(***************************************************************************)
(* C12.  How an mpservice Process / Thread object reports the way its      *)
(* target ended.                                                           *)
(*                                                                         *)
(* multiprocessing/context.py (flavour "proc")                             *)
(*   child    Boot        interpreter start, unpickling of the process     *)
(*                        object, run() up to the call of the target       *)
(*            RunTarget   the target ends in one of Kinds                  *)
(*            SendResult  result_and_error.send(result)                    *)
(*            SendError   result_and_error.send(error)   <- commit point   *)
(*            ClosePipe   result_and_error.close() (finally)               *)
(*            Exit        exit functions, finalizers, process exit         *)
(*   OS       Kill(sig)   a signal is sent while the child is at any label;*)
(*            Deliver     its effect: TERM/KILL end the process at once;   *)
(*                        INT is Python's KeyboardInterrupt raised at the  *)
(*                        current label (inside the target: the target     *)
(*                        ends by raising; elsewhere: the process dies     *)
(*                        with a traceback)                                *)
(*   parent   collector thread (_collect_result): Recv1, Recv2, OnEOF      *)
(*            (waits for the exit code; TERM -> result None, else error),  *)
(*            Resolve (set_result / set_exception on _future_)             *)
(*   parent   accessors, any order, any number of times: join result       *)
(*            exception done exitcode wait as_completed                    *)
(*                                                                         *)
(* threading/__init__.py (flavour "thread"): the same without OS and pipe: *)
(*   TBegin (run() creates the future), RunTarget, SetFuture, ThreadExit.  *)
(*                                                                         *)
(* Flags (FALSE = code as found, TRUE = repaired design):                  *)
(*   ResolveOnAbnormalExit  collector turns an abnormal exit into the      *)
(*        future's exception.  As found it raises OSError inside its own   *)
(*        thread: _future_ stays pending (wait / as_completed never        *)
(*        return) and exception() raises instead of returning   (D12)      *)
(*   CarrierSafe   Thread.run attaches the traceback text with a carrier   *)
(*        that can always be built.  As found `type(e)(tb)` raises         *)
(*        TypeError for classes with another constructor signature         *)
(*        (UnicodeDecodeError ...): the future is never resolved and       *)
(*        join / result / exception / wait hang                 (D17)      *)
(*   JoinAwaitsExitCode   join / result / exception say "timed out" only   *)
(*        when the child is really still there.  As found they test        *)
(*        `exitcode is None` right after the OS-level join; when the       *)
(*        collector (which polls exitcode after EOF) has reaped the child  *)
(*        but not yet stored the status, waitpid in the caller fails with  *)
(*        ECHILD and the exit code still reads None: join returns          *)
(*        silently, result / exception raise TimeoutError        (D19)     *)
(*   FutureAtStart   the Thread's future exists when start() returns.      *)
(*        As found run() creates it: wait([t]) directly after start() can  *)
(*        find None and raise AttributeError                    (D18)      *)
(***************************************************************************)
EXTENDS Integers, Sequences, FiniteSets, TLC

CONSTANTS ResolveOnAbnormalExit, CarrierSafe, FutureAtStart, JoinAwaitsExitCode,
          Flavours,     \* subset of {"proc", "thread"} explored by Init
          Accs          \* accessor names the environment may use

VARIABLES
  p,       \* scenario: [flavour, kind, val]  val = what a returning target returns ("v" | "None")
  cpc,     \* child / thread label
  ek,      \* effective ending kind of the target ("no" before it ended)
  sent,    \* messages the child has put into the result pipe (0..2); thread: 2 once the future is set
  pipe,    \* result pipe content
  wopen,   \* the child's end of the result pipe is open
  sigp,    \* signal sent and not yet delivered ("none")
  killed,  \* the one signal of this behaviour ("none" if never sent)
  code,    \* exit status held by the OS (NoCode = still running)
  reap,    \* who has taken the status: "no" (still with the OS), "coll" (the collector's waitpid has it but
           \* Popen.returncode is not yet assigned), "done" (returncode assigned: `exitcode` reads `code`)
  kpc,     \* collector label
  res, err,\* collector's local variables
  cexc,    \* exception that killed the collector thread ("None")
  fut,     \* _future_: [k |-> "absent" | "none" | "val" | "exc", x |-> ...]
  obs      \* set of [acc, k, x]: what accessors returned ("ret") or raised ("raise") so far

vars == <<p, cpc, ek, sent, pipe, wopen, sigp, killed, code, reap, kpc, res, err, cexc, fut, obs>>
child == <<cpc, ek, sent, pipe, wopen, sigp, killed, code>>
coll == <<kpc, res, err, cexc>>

Kinds == {"ret", "raise", "raiseX", "exitNone", "exit0", "exitN", "exitStr"}
Sigs == {"TERM", "KILL", "INT"}
NoCode == 99
ExitN == 3
SigCode(s) == CASE s = "TERM" -> -15 [] s = "KILL" -> -9 [] s = "INT" -> -2
\* a Python-level death by KeyboardInterrupt: traceback and status 1, or (uncaught at top level) re-raised SIGINT
IntCodes == {1, -2}

ResOf(k) == IF k = "ret" THEN p.val ELSE "None"
ErrOf(k) == CASE k = "raise" -> "e" [] k = "raiseX" -> "eX" [] k = "raiseKI" -> "KI" [] k = "exitN" -> "exit"
              [] k = "exitStr" -> "exitS" [] OTHER -> "None"
CodeOf(k) == CASE k \in {"ret", "exitNone", "exit0"} -> 0 [] k = "exitN" -> ExitN [] OTHER -> 1
\* as found the negated exit status is used as an errno (9: "Bad file descriptor: possibly out of memory")
OsErr(c) == "os" \o ToString(-c)
CodeStr(c) == IF c = NoCode THEN "None" ELSE ToString(c)

IsProc == p.flavour = "proc"
Dead == cpc = "dead"

Params == { c \in [flavour : Flavours, kind : Kinds, val : {"v", "None"}] : c.kind # "ret" => c.val = "v" }

InitWith(c) ==
  /\ p = c
  /\ cpc = IF c.flavour = "proc" THEN "Boot" ELSE "TBegin"
  /\ ek = "no" /\ sent = 0 /\ pipe = <<>> /\ wopen = (c.flavour = "proc")
  /\ sigp = "none" /\ killed = "none" /\ code = NoCode /\ reap = "no"
  /\ kpc = IF c.flavour = "proc" THEN "Recv1" ELSE "unused"
  /\ res = "None" /\ err = "None" /\ cexc = "None"
  /\ fut = [k |-> IF c.flavour = "thread" /\ ~FutureAtStart THEN "absent" ELSE "none", x |-> "None"]
  /\ obs = {}

Init == \E c \in Params : InitWith(c)

-----------------------------------------------------------------------------
\* the child process
Running == sigp = "none"      \* a child with a pending signal is about to be interrupted: it takes no further step

Boot == /\ IsProc /\ cpc = "Boot" /\ Running
        /\ cpc' = "RunTarget"
        /\ UNCHANGED <<p, ek, sent, pipe, wopen, sigp, killed, code, reap, coll, fut, obs>>

RunTarget == /\ cpc = "RunTarget" /\ Running
             /\ ek' = p.kind
             /\ cpc' = IF IsProc THEN "SendResult" ELSE "SetFuture"
             /\ UNCHANGED <<p, sent, pipe, wopen, sigp, killed, code, reap, coll, fut, obs>>

SendResult == /\ cpc = "SendResult" /\ Running
              /\ pipe' = Append(pipe, ResOf(ek)) /\ sent' = 1 /\ cpc' = "SendError"
              /\ UNCHANGED <<p, ek, wopen, sigp, killed, code, reap, coll, fut, obs>>

SendError == /\ cpc = "SendError" /\ Running
             /\ pipe' = Append(pipe, ErrOf(ek)) /\ sent' = 2 /\ cpc' = "ClosePipe"
             /\ UNCHANGED <<p, ek, wopen, sigp, killed, code, reap, coll, fut, obs>>

ClosePipe == /\ cpc = "ClosePipe" /\ Running
             /\ wopen' = FALSE /\ cpc' = "Exit"
             /\ UNCHANGED <<p, ek, sent, pipe, sigp, killed, code, reap, coll, fut, obs>>

Exit == /\ IsProc /\ cpc = "Exit" /\ Running
        /\ code' = CodeOf(ek) /\ cpc' = "dead"
        /\ UNCHANGED <<p, ek, sent, pipe, wopen, sigp, killed, reap, coll, fut, obs>>

\* the operating system
Kill(s) == /\ IsProc /\ ~Dead /\ killed = "none"
           /\ sigp' = s /\ killed' = s
           /\ UNCHANGED <<p, cpc, ek, sent, pipe, wopen, code, reap, coll, fut, obs>>

Die(c) == /\ cpc' = "dead" /\ wopen' = FALSE /\ code' = c /\ sigp' = "none"
          /\ UNCHANGED <<p, ek, sent, pipe, killed, reap, coll, fut, obs>>

Deliver ==
  /\ sigp # "none"
  /\ \/ sigp \in {"TERM", "KILL"} /\ Die(SigCode(sigp))
     \/ sigp = "INT" /\ cpc = "RunTarget"       \* KeyboardInterrupt inside the target: the target ends by raising
        /\ ek' = "raiseKI" /\ cpc' = "SendResult" /\ sigp' = "none"
        /\ UNCHANGED <<p, sent, pipe, wopen, killed, code, reap, coll, fut, obs>>
     \/ sigp = "INT" /\ \E c \in IntCodes : Die(c)

\* the thread flavour
TBegin == /\ ~IsProc /\ cpc = "TBegin"
          /\ fut' = [k |-> "none", x |-> "None"] /\ cpc' = "RunTarget"
          /\ UNCHANGED <<p, ek, sent, pipe, wopen, sigp, killed, code, reap, coll, obs>>

SetFuture == /\ cpc = "SetFuture"
             /\ IF ek = "raiseX" /\ ~CarrierSafe
                  THEN fut' = fut /\ sent' = sent                   \* run() dies with TypeError before set_exception
                  ELSE /\ sent' = 2
                       /\ fut' = IF ErrOf(ek) # "None" THEN [k |-> "exc", x |-> ErrOf(ek)]
                                                      ELSE [k |-> "val", x |-> ResOf(ek)]
             /\ cpc' = "ThreadExit"
             /\ UNCHANGED <<p, ek, pipe, wopen, sigp, killed, code, reap, coll, obs>>

ThreadExit == /\ cpc = "ThreadExit"
              /\ cpc' = "dead"
              /\ UNCHANGED <<p, ek, sent, pipe, wopen, sigp, killed, code, reap, coll, fut, obs>>

-----------------------------------------------------------------------------
\* the parent's collector thread
Recv1 == /\ kpc = "Recv1"
         /\ \/ pipe # <<>> /\ res' = Head(pipe) /\ pipe' = Tail(pipe) /\ kpc' = "Recv2"
            \/ pipe = <<>> /\ ~wopen /\ kpc' = "OnEOF" /\ UNCHANGED <<res, pipe>>
         /\ UNCHANGED <<p, cpc, ek, sent, wopen, sigp, killed, code, reap, err, cexc, fut, obs>>

Recv2 == /\ kpc = "Recv2"
         /\ \/ pipe # <<>> /\ err' = Head(pipe) /\ pipe' = Tail(pipe) /\ kpc' = "Resolve"
            \/ pipe = <<>> /\ ~wopen /\ kpc' = "OnEOF" /\ UNCHANGED <<err, pipe>>
         /\ UNCHANGED <<p, cpc, ek, sent, wopen, sigp, killed, code, reap, res, cexc, fut, obs>>

\* `while self.exitcode is None: sleep`: every round is a non-blocking waitpid; the status it obtains is stored a moment later
CollPoll == /\ kpc = "OnEOF" /\ Dead /\ reap = "no"
            /\ reap' = "coll"
            /\ UNCHANGED <<p, child, coll, fut, obs>>
CollStore == /\ reap = "coll"
             /\ reap' = "done"
             /\ UNCHANGED <<p, child, coll, fut, obs>>
\* a parent thread blocked in the OS-level join (or any other poll of the children) obtains and stores the status
MainReap == /\ IsProc /\ Dead /\ reap = "no"
            /\ reap' = "done"
            /\ UNCHANGED <<p, child, coll, fut, obs>>

\* then the classification of the exit code
OnEOF == /\ kpc = "OnEOF" /\ reap = "done"
         /\ IF code = -15 THEN kpc' = "Resolve" /\ UNCHANGED <<err, cexc>>
            ELSE IF ResolveOnAbnormalExit THEN err' = OsErr(code) /\ kpc' = "Resolve" /\ cexc' = cexc
            ELSE kpc' = "crashed" /\ cexc' = OsErr(code) /\ err' = err
         /\ UNCHANGED <<p, child, reap, res, fut, obs>>

Resolve == /\ kpc = "Resolve"
           /\ fut' = IF err # "None" THEN [k |-> "exc", x |-> err] ELSE [k |-> "val", x |-> res]
           /\ kpc' = "done"
           /\ UNCHANGED <<p, child, reap, res, err, cexc, obs>>

-----------------------------------------------------------------------------
\* accessors (parent, any thread).  A blocking accessor is one action, enabled when it can return.
Ret(x) == [k |-> "ret", x |-> x]
Raise(x) == [k |-> "raise", x |-> x]
Resolved == fut.k \in {"val", "exc"}
JoinLike == {"join", "result", "exception"}
\* join(): the OS-level join, then `done()` (= exitcode is not None), then the collector thread's join (proc) / the
\* future's exception() (thread)
JoinReady == IF IsProc THEN Dead /\ kpc \in {"done", "crashed"} /\ reap # "coll" ELSE Dead /\ Resolved
\* as found: the OS-level join came back (ECHILD, the collector has the status) but the exit code still reads None
Early(a) == IsProc /\ ~JoinAwaitsExitCode /\ a \in JoinLike /\ Dead /\ reap = "coll"
\* every accessor except wait / as_completed polls the child: a non-blocking waitpid that obtains and stores the status
PollReap == IF IsProc /\ Dead /\ reap = "no" THEN "done" ELSE reap

\* when the call can return ...
AccReady(a) == CASE a \in JoinLike -> JoinReady \/ Early(a)
                 [] a \in {"wait", "as_completed"} -> Resolved \/ fut.k = "absent"   \* they read w._future_ and block on it
                 [] a = "exitcode" -> IsProc
                 [] OTHER -> TRUE
\* ... and what it then reports
AccOut(a) ==
  CASE Early(a) -> IF a = "join" THEN Ret("None") ELSE Raise("TimeoutError")
    [] a = "join" /\ ~Early(a) -> IF kpc = "crashed" THEN Raise(cexc) ELSE IF fut.k = "exc" THEN Raise(fut.x) ELSE Ret("None")
    [] a = "result" /\ ~Early(a) -> IF kpc = "crashed" THEN Raise(cexc) ELSE IF fut.k = "exc" THEN Raise(fut.x) ELSE Ret(fut.x)
    [] a = "exception" /\ ~Early(a) -> IF kpc = "crashed" THEN Raise(cexc) ELSE IF fut.k = "exc" THEN Ret(fut.x) ELSE Ret("None")
    [] a = "done" -> Ret(IF Dead /\ (IsProc => PollReap = "done") THEN "T" ELSE "F")
    [] a = "exitcode" -> Ret(CodeStr(IF PollReap = "done" THEN code ELSE NoCode))
    [] OTHER -> IF fut.k = "absent" THEN Raise("AttributeError") ELSE Ret("done")
Observe(a, o) == /\ obs' = obs \cup {[acc |-> a, k |-> o.k, x |-> o.x]}
                 /\ reap' = IF a \in {"wait", "as_completed"} \/ Early(a) THEN reap ELSE PollReap
                 /\ UNCHANGED <<p, child, coll, fut>>
Access(a) == AccReady(a) /\ Observe(a, AccOut(a))

Join == "join" \in Accs /\ Access("join")
Result == "result" \in Accs /\ Access("result")
Exception == "exception" \in Accs /\ Access("exception")
Done == "done" \in Accs /\ Access("done")
Exitcode == "exitcode" \in Accs /\ Access("exitcode")
Wait == "wait" \in Accs /\ Access("wait")
AsCompleted == "as_completed" \in Accs /\ Access("as_completed")

ChildStep == Boot \/ RunTarget \/ SendResult \/ SendError \/ ClosePipe \/ Exit \/ TBegin \/ SetFuture \/ ThreadExit
CollStep == Recv1 \/ Recv2 \/ CollPoll \/ CollStore \/ OnEOF \/ Resolve
AccStep == Join \/ Result \/ Exception \/ Done \/ Exitcode \/ Wait \/ AsCompleted
Next == ChildStep \/ CollStep \/ MainReap \/ Deliver \/ (\E s \in Sigs : Kill(s)) \/ AccStep

Spec == Init /\ [][Next]_vars
\* the signal is not owed to anybody; everything else keeps going
FairSpec == Spec /\ WF_vars(ChildStep) /\ WF_vars(CollStep) /\ WF_vars(Deliver)

-----------------------------------------------------------------------------
TypeOK ==
  /\ cpc \in {"Boot", "TBegin", "RunTarget", "SendResult", "SendError", "ClosePipe", "Exit", "SetFuture", "ThreadExit", "dead"}
  /\ ek \in Kinds \cup {"no", "raiseKI"} /\ sent \in 0..2 /\ Len(pipe) <= 2
  /\ sigp \in Sigs \cup {"none"} /\ killed \in Sigs \cup {"none"}
  /\ kpc \in {"Recv1", "Recv2", "OnEOF", "Resolve", "done", "crashed", "unused"}
  /\ fut.k \in {"absent", "none", "val", "exc"} /\ reap \in {"no", "coll", "done"}

\* The one abstract outcome of a behaviour.  It is decided when the child has handed over both messages (the target's
\* own ending, whatever happens to the process afterwards) or when the process died before that.
Outcome ==
  IF sent = 2 THEN [t |-> "ended", k |-> ek]
  ELSE IF Dead /\ IsProc THEN [t |-> "killed", c |-> code]
  ELSE IF Dead THEN [t |-> "lost"]        \* a thread that ended without resolving its future (as found only)
  ELSE [t |-> "undecided"]

\* what each accessor must report for the outcome
Expected(a) ==
  LET o == Outcome IN
  IF o.t = "ended" THEN
       LET e == ErrOf(o.k) r == ResOf(o.k) IN
       CASE a = "join" -> IF e # "None" THEN Raise(e) ELSE Ret("None")
         [] a = "result" -> IF e # "None" THEN Raise(e) ELSE Ret(r)
         [] a = "exception" -> Ret(e)
         [] OTHER -> Ret("done")
  ELSE IF o.t = "killed" /\ o.c = -15 THEN      \* terminate(): reported as a quiet end; a result already handed over is kept
       CASE a = "join" -> Ret("None")
         [] a = "result" -> Ret(IF sent >= 1 THEN ResOf(ek) ELSE "None")
         [] a = "exception" -> Ret("None")
         [] OTHER -> Ret("done")
  ELSE IF o.t = "killed" THEN                   \* death by an unexpected signal / abnormal exit surfaces as an error
       CASE a = "join" -> Raise(OsErr(o.c))
         [] a = "result" -> Raise(OsErr(o.c))
         [] a = "exception" -> Ret(OsErr(o.c))
         [] OTHER -> Ret("done")
  ELSE Ret("?")

Blocking == {"join", "result", "exception", "wait", "as_completed"}

\* C12 "agree with each other": everything the accessors have reported fits the one outcome
Agreement ==
  \A o \in obs :
     /\ o.acc \in Blocking => [k |-> o.k, x |-> o.x] = Expected(o.acc)
     /\ (o.acc = "done" /\ o.x = "T") => Dead
     /\ (o.acc = "exitcode" /\ o.x # "None") => o.x = CodeStr(code)
     /\ (o.acc \in {"join", "result", "exception"} /\ IsProc) => Dead

\* the exit code tells how the process ended
ExitCodeRight ==
  (Dead /\ IsProc) =>
     CASE killed = "none" -> code = CodeOf(ek)
       [] killed \in {"TERM", "KILL"} -> code = SigCode(killed)
       [] OTHER -> code \in IntCodes \cup {CodeOf(ek)}

\* the future never contradicts the outcome
FutureRight ==
  Resolved => LET e == Expected("exception").x IN
              IF e # "None" THEN fut = [k |-> "exc", x |-> e] ELSE fut = [k |-> "val", x |-> Expected("result").x]

\* trap invariants (negated reachability goals): the corners the property is about must exist in the model
\* killed between the two messages, the collector already holds the result
Trap_KilledBetweenMessages == ~(Dead /\ sent = 1 /\ killed = "KILL" /\ kpc = "Recv2")
\* the collector has reaped the child and a caller is about to look at the exit code
Trap_ReapedByCollector == ~(Dead /\ reap = "coll" /\ killed = "TERM")
\* a signal after the hand-over: the future carries the target's own outcome, the exit code the signal
Trap_KilledAfterHandOver == ~(Dead /\ sent = 2 /\ code = -9 /\ fut.k = "exc")

\* C12 "return in bounded time": once the worker is gone its future gets resolved (wait / as_completed complete),
\* and join / result / exception can return
BoundedAccessors == (Dead ~> Resolved) /\ (Dead ~> JoinReady)
WorkerEnds == (killed = "none") ~> (Dead \/ killed # "none")
=============================================================================
