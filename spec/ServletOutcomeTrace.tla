------------------------ MODULE ServletOutcomeTrace ------------------------
(* Validates what the callers of a REAL Server over PROCESS servlet trees received (mbt/bind/servletproc.py: real worker  *)
(* processes and pipes, many concurrent callers and a stream, OS scheduling) against the outcome rules of ServletNet:     *)
(* `ExpectedOK` (C02: every request gets exactly one outcome, computed from its own input by the configured composition;  *)
(* C04: a failure is the request's own, with its site; a failing batched call fails exactly its members; the ensemble's   *)
(* fail_fast rules).  The inside of the tree cannot be observed across processes, so the trace consists of                *)
(*    Batch(reqs)   the members of a batched call that failed (carried out of the worker process by the exception)       *)
(*    Ret(r, ...)   the decoded outcome a caller of `call` received                                                       *)
(*    SRet(r, ...)  the next outcome yielded by `stream` (must follow the input order p.stream)                           *)
(*    End           every caller is back                                                                                   *)
(* and the state is ServletNet's `outcome` / `pc` / `batches`; the queues stay empty.                                     *)
EXTENDS ServletNet, Json, IOUtils, TLCExt

TraceLog == JsonDeserialize(IOEnv.TRACE_FILE)
VARIABLES tid, l, spos
tvars == <<vars, tid, l, spos>>

ToSet(s) == {s[i] : i \in DOMAIN s}
Evs == TraceLog[tid].ev
E == Evs[l]
Is(name) == l <= Len(Evs) /\ E.ev = name
Adv == l' = l + 1 /\ tid' = tid
H == TraceLog[tid].p

ParamOf(h) == [ fail |-> [s \in Stages |-> ToSet(h.fail[s])], pre |-> [s \in Stages |-> ToSet(h.pre[s])],
                route |-> h.route, abandon |-> {} ]

TraceInit ==
  \E t \in 1..Len(TraceLog) :
     /\ tid = t /\ l = 1 /\ spos = 1 /\ InitWith(ParamOf(TraceLog[t].p))
     /\ TLCSet(t, <<1, "init", "none">>)

Val == [k |-> E.k, req |-> E.req, path |-> E.path, a |-> E.a, b |-> E.b]
Deliver(r) ==
  /\ pc[r] # "done"                         \* exactly one outcome per request
  /\ E.tb                                   \* a failure carries its type, args and the traceback text of the failure site
  /\ outcome' = [outcome EXCEPT ![r] = Val] /\ pc' = [pc EXCEPT ![r] = "done"]
  /\ UNCHANGED <<p, qs, hold, obx, scb, cat, ledger, used, uidOf, batches, missed>>

TBatch == /\ Is("Batch") /\ batches' = batches \cup {ToSet(E.reqs)}
          /\ UNCHANGED <<p, qs, hold, obx, scb, cat, ledger, used, pc, uidOf, outcome, missed, spos>> /\ Adv
TRet   == Is("Ret") /\ E.r \notin ToSet(H.stream) /\ Deliver(E.r) /\ spos' = spos /\ Adv
\* `stream` yields outcomes in input order
TSRet  == /\ Is("SRet") /\ spos <= Len(H.stream) /\ E.r = H.stream[spos]
          /\ Deliver(E.r) /\ spos' = spos + 1 /\ Adv
TEnd   == /\ Is("End") /\ (\A r \in Req : pc[r] = "done") /\ spos = Len(H.stream) + 1 /\ E.backlog = 0
          /\ UNCHANGED <<vars, spos>> /\ Adv

TraceNext == TBatch \/ TRet \/ TSRet \/ TEnd
TraceSpec == TraceInit /\ [][TraceNext]_tvars

FailedInv == IF ~NoCrossTalk THEN "NoCrossTalk" ELSE "none"
Progress ==
  IF FailedInv # "none"
    THEN TLCSet(tid, <<TLCGet(tid)[1], TLCGet(tid)[2], FailedInv>>) /\ FALSE
    ELSE IF TLCGet(tid)[1] < l
           THEN TLCSet(tid, <<l, <<{r \in Req : pc[r] = "done"}, spos>>, TLCGet(tid)[3]>>)
           ELSE TRUE
Report ==
  \A t \in 1..Len(TraceLog) :
     PrintT(<<"VERDICT", t, TLCGet(t)[1], Len(TraceLog[t].ev), TLCGet(t)[2], TLCGet(t)[3]>>)
=============================================================================
