----------------------------- MODULE PipeOutcome -----------------------------
(***************************************************************************)
(* What the CONSUMER of an order-preserving one-to-one pipeline observes   *)
(* (C05, for pipelines composed of several stages and the sync/async       *)
(* adapters SyncIter / AsyncIter): the source's elements in order; the end *)
(* is exhaustion (after all n), the source's failure (after exactly the    *)
(* elements before it) or the consumer's own early stop; and when the      *)
(* iterator has been closed, no helper thread of any stage is left.        *)
(* The stages' insides are not modelled here (BufferOp / FifoStream do     *)
(* that for single stages): this is the outcome contract of compositions.  *)
(***************************************************************************)
EXTENDS Naturals, TLC

CONSTANTS MaxN

VARIABLES p,    \* scenario: [n, srcfail (0: none; k: the source fails instead of yielding element k), maybreak]
          k,    \* elements received so far
          st    \* "run" | "ended" | "closed"
vars == <<p, k, st>>

InitWith(c) == p = c /\ k = 0 /\ st = "run"
Init == \E n \in 0..MaxN, f \in 0..(MaxN + 1), b \in BOOLEAN : f <= n + 1 /\ InitWith([n |-> n, srcfail |-> f, maybreak |-> b])

Yield(i) == /\ st = "run" /\ i = k + 1 /\ i <= p.n /\ (p.srcfail = 0 \/ i < p.srcfail)
            /\ k' = i /\ UNCHANGED <<p, st>>
EndNone  == st = "run" /\ p.srcfail = 0 /\ k = p.n /\ st' = "ended" /\ UNCHANGED <<p, k>>
EndSrc   == st = "run" /\ p.srcfail > 0 /\ k = p.srcfail - 1 /\ st' = "ended" /\ UNCHANGED <<p, k>>
Break    == st = "run" /\ p.maybreak /\ k >= 1 /\ st' = "ended" /\ UNCHANGED <<p, k>>
\* the iterator is closed: every helper thread the pipeline started has exited
Closed(leftover) == st = "ended" /\ leftover = 0 /\ st' = "closed" /\ UNCHANGED <<p, k>>

Next == (\E i \in 1..MaxN : Yield(i)) \/ EndNone \/ EndSrc \/ Break \/ Closed(0) \/ (st = "closed" /\ UNCHANGED vars)
Spec == Init /\ [][Next]_vars /\ WF_vars(Next)

InOrder == k <= p.n /\ (p.srcfail > 0 => k < p.srcfail)
Finishes == <>(st = "closed")
==============================================================================
