-------------------------- MODULE EagerBatcherTrace --------------------------
(***************************************************************************)
(* Validates executions of the REAL EagerBatcher over a real queue.Queue   *)
(* fed by a producer thread (recorded by mbt/bind/eagerbatcher.py under    *)
(* detsched: virtual time, exact global event order) against EagerBatcher. *)
(* Events (each stamped with the virtual time t):                          *)
(*   Put(i)        the producer's put of arrival i, logged inside the      *)
(*                 queue's critical section                                *)
(*   Get(x)        a get of the batcher returned item x (0 = end marker)   *)
(*   Timeout       a timed get raised queue.Empty                          *)
(*   Yield(items)  the batcher yielded a batch                             *)
(*   End           the iteration finished                                  *)
(* The passage of time is the only silent step.                            *)
(***************************************************************************)
EXTENDS EagerBatcher, IOUtils, TLCExt

TraceLog == JsonDeserialize(IOEnv.TRACE_FILE)

VARIABLES tid, l
tvars == <<vars, tid, l>>

Evs == TraceLog[tid].ev
E == Evs[l]
Is(name) == l <= Len(Evs) /\ E.ev = name
Step == l' = l + 1 /\ tid' = tid
Silent == l' = l /\ tid' = tid

ParamOf(h) == [b |-> h.b, w |-> h.w, custom |-> h.custom, eager |-> h.eager, arr |-> h.arr]

TraceInit ==
  \E t \in 1..Len(TraceLog) :
     /\ tid = t /\ l = 1
     /\ InitWith(ParamOf(TraceLog[t].p))
     /\ TLCSet(t, <<1, "init", "none">>)

TPut     == Is("Put") /\ now = E.t /\ Put /\ nput' = E.i /\ Step
TGet     == Is("Get") /\ now = E.t /\ ~QEmpty /\ Front.x = E.x /\ (GetFirst \/ GetMore \/ SeeEnd) /\ Step
TTimeout == Is("Timeout") /\ now = E.t /\ TimerExpire /\ Step
TYield   == Is("Yield") /\ now = E.t /\ batch = E.items /\ Yield /\ Step
TEnd     == Is("End") /\ pc = "done" /\ UNCHANGED vars /\ Step
TTick    == l <= Len(Evs) /\ E.t > now /\ Tick /\ now' <= E.t /\ Silent

TraceNext == TPut \/ TGet \/ TTimeout \/ TYield \/ TEnd \/ TTick
TraceSpec == TraceInit /\ [][TraceNext]_tvars

FailedInv ==
  IF ~TypeOK THEN "TypeOK" ELSE IF ~Partition THEN "Partition" ELSE IF ~BatchSize THEN "BatchSize"
  ELSE IF ~EmitRule THEN "EmitRule" ELSE IF ~NoDelay THEN "NoDelay" ELSE "none"

Progress ==
  IF FailedInv # "none"
    THEN TLCSet(tid, <<TLCGet(tid)[1], TLCGet(tid)[2], FailedInv>>) /\ FALSE
    ELSE IF TLCGet(tid)[1] < l
           THEN TLCSet(tid, <<l, <<pc, now, nput, nget, deadline, batch>>, TLCGet(tid)[3]>>)
           ELSE TRUE

Report ==
  \A t \in 1..Len(TraceLog) :
     PrintT(<<"VERDICT", t, TLCGet(t)[1], Len(TraceLog[t].ev), TLCGet(t)[2], TLCGet(t)[3]>>)
=============================================================================
