---------------------------- MODULE SocketMuxMC ----------------------------
EXTENDS SocketMux
Scen(Ks, Bs, PCs, cls, streams) ==
  {[K |-> k, B |-> b, PC |-> pc, cls |-> cls, stream |-> s] : k \in Ks, b \in Bs, pc \in PCs, s \in streams}
Cls3 == <<"small", "big", "raises">>
Cls4 == <<"header", "big", "raises", "empty">>
\* quick: 3 requests; none / some / all of them fed by one stream() call
Grid3 == Scen({1, 2}, {1, 2}, {1, 2}, Cls3, {<<>>, <<2, 3>>, <<1, 2, 3>>})
\* thorough: 4 requests
Grid4 == Scen({1, 2}, {1, 2}, {1, 2}, Cls4, {<<>>, <<2, 3>>, <<1, 2, 3, 4>>})
Grid4One == Scen({1}, {1, 2}, {1, 2}, Cls4, {<<>>, <<2, 3>>, <<1, 2, 3, 4>>})
Small2 == Scen({1, 2}, {1}, {1, 2}, <<"small", "big">>, {<<>>, <<1, 2>>})
\* quick grid: 3 requests; two connections with the tightest queues, with and without a stream; one connection
Quick3 == Scen({2}, {1}, {1}, Cls3, {<<>>, <<1, 2, 3>>}) \cup Scen({2}, {2}, {2}, Cls3, {<<2, 3>>})
          \cup Scen({1}, {1}, {2}, Cls3, {<<>>}) \cup Scen({1}, {2}, {1}, Cls3, {<<1, 2, 3>>})
Thor4a == Scen({2}, {1}, {2}, Cls4, {<<2, 3>>})
Thor4b == Scen({1}, {1, 2}, {1, 2}, Cls4, {<<>>, <<1, 2, 3, 4>>})
Thor4c == Scen({2}, {1}, {1}, Cls4, {<<>>})
Thor4s == Scen({1}, {1, 2}, {1}, Cls4, {<<1, 2, 3, 4>>})
\* three requester threads on a pending queue of one: the as-found put overshoots
Over3 == Scen({1}, {1}, {1}, Cls3, {<<>>})
Live2 == Scen({1, 2}, {1}, {1}, <<"small", "raises">>, {<<>>, <<1, 2>>})
Live3 == Scen({2}, {1}, {1}, Cls3, {<<>>, <<2, 3>>})
NoActView == <<p, rst, id, pending, waiters, snd, active, wcs, srx, fifo, shd, hdone, wsc, val, nres, crashed, yseq>>
=============================================================================
