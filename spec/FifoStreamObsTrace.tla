------------------------- MODULE FifoStreamObsTrace -------------------------
(***************************************************************************)
(* Validates executions of the REAL Parmapper with a PROCESS executor      *)
(* (mbt/bind/fifoproc.py: real worker processes, OS scheduling) against    *)
(* FifoStream.  Only the CONSUMER thread's own events are logged (their    *)
(* order is exact: one thread): Next, Yield, Break, Closed, ExecShut, and  *)
(* a final Calls record read from shared-memory counters.  Feeder, pool    *)
(* and workers are silent: TLC searches for an interleaving of them that   *)
(* explains what the consumer saw.  Per-element durations make later       *)
(* elements finish before earlier ones.                                     *)
(***************************************************************************)
EXTENDS FifoStream, Json, IOUtils, TLCExt

TraceLog == JsonDeserialize(IOEnv.TRACE_FILE)

VARIABLES tid, l
tvars == <<vars, tid, l>>

ToSet(s) == {s[i] : i \in DOMAIN s}
ParamOf(h) == [ n |-> h.n, cap |-> h.cap, conc |-> h.conc, retexc |-> h.retexc, fail |-> ToSet(h.fail),
                prefail |-> ToSet(h.prefail), srcfail |-> h.srcfail, srcbase |-> h.srcbase,
                maybreak |-> h.maybreak, mode |-> h.mode, subfail |-> h.subfail ]

Evs == TraceLog[tid].ev
E == Evs[l]
Is(name) == l <= Len(Evs) /\ E.ev = name
Step == l' = l + 1 /\ tid' = tid
Silent == l' = l /\ tid' = tid

TraceInit ==
  \E t \in 1..Len(TraceLog) :
     /\ tid = t /\ l = 1
     /\ InitWith(ParamOf(TraceLog[t].p))
     /\ TLCSet(t, <<1, "init", "none">>)

TNext     == Is("Next") /\ (ConsStart \/ ConsNext) /\ Step
TYield    == /\ Is("Yield") /\ ConsYield
             /\ val.y = E.y /\ val.kind = E.kind /\ (E.x # 0 => val.x = E.x)
             /\ Step
TBreak    == Is("Break") /\ ConsBreak /\ Step
TClosed   == /\ Is("Closed") /\ FinJoin
             /\ raised.k = E.k /\ raised.i = E.i /\ E.fa = FALSE
             /\ Step
TExecShut == Is("ExecShut") /\ ExecShutdown /\ E.procs = 0 /\ Step
\* shared-memory call counters and the highest number of simultaneously running calls, read after the executor has gone.
\* A process pool pre-fetches work items into its call queue where they can no longer be cancelled, so after an early stop
\* it may run elements the thread-pool model would have cancelled: only the property's own claims are compared.
TCalls    == /\ Is("Calls") /\ Terminated
             /\ \A i \in 1..p.n :
                   /\ E.c[i] <= 1
                   /\ (i \in p.prefail => E.c[i] = 0)
                   /\ (i <= Len(out) /\ i \notin p.prefail => E.c[i] = 1)
             /\ E.maxconc <= p.conc
             /\ UNCHANGED vars /\ Step

TSilent == /\ \/ FeederPull \/ FeederSrcEnd \/ FeederSrcRaise \/ FeederCheckStop \/ FeederPreFail \/ FeederSubmit
              \/ FeederSubmitRaise
              \/ FeederPut \/ FeederPutEnd \/ FeederPutExc
              \/ WorkerTake
              \/ \E i \in 1..p.n : (WorkerSetRunning(i) \/ WorkerSkip(i) \/ WorkerStart(i) \/ WorkerFinish(i))
              \/ ConsGet \/ ConsAwait \/ ConsSetStop \/ FinDrainOne \/ FinCancel \/ FinDrainEmpty
           /\ Silent

TraceNext == TNext \/ TYield \/ TBreak \/ TClosed \/ TExecShut \/ TCalls \/ TSilent
TraceSpec == TraceInit /\ [][TraceNext]_tvars

FailedInv ==
  IF ~OutIsPrefix THEN "OutIsPrefix" ELSE IF ~CalledOnce THEN "CalledOnce" ELSE IF ~EndOK THEN "EndOK"
  ELSE IF ~NoFeederLeak THEN "NoFeederLeak" ELSE IF ~NoWorkLeak THEN "NoWorkLeak"
  ELSE IF ~LookAhead THEN "LookAhead" ELSE IF ~InFlightBound THEN "InFlightBound"
  ELSE IF ~QueueBound THEN "QueueBound" ELSE "none"

Progress ==
  IF FailedInv # "none"
    THEN TLCSet(tid, <<TLCGet(tid)[1], TLCGet(tid)[2], FailedInv>>) /\ FALSE
    ELSE IF TLCGet(tid)[1] < l
           THEN TLCSet(tid, <<l, <<feeder, cons, Len(q), held, cur.f, stop>>, TLCGet(tid)[3]>>)
           ELSE TRUE

Report ==
  \A t \in 1..Len(TraceLog) :
     PrintT(<<"VERDICT", t, TLCGet(t)[1], Len(TraceLog[t].ev), TLCGet(t)[2], TLCGet(t)[3]>>)
=============================================================================
