----------------------------- MODULE FifoStream -----------------------------
(***************************************************************************)
(* fifo_stream / async_fifo_stream / Parmapper of                          *)
(* src/mpservice/streamer/_streamer.py (lines 966-1284).                   *)
(*                                                                         *)
(* Roles: the SOURCE iterator (pulled by the feeder), the FEEDER thread    *)
(* (`feed`), the executor WORKERS behind `func`, the CONSUMER (generator   *)
(* body + the user's loop) and its FINALIZER (`except BaseException` /     *)
(* `finally` of the generator).  One action per critical section / per     *)
(* blocking call of the code, so that recorded executions of the real code *)
(* can be validated against it (FifoStreamTrace.tla) and behaviours of     *)
(* this spec can be replayed into the real code.                           *)
(*                                                                         *)
(* The run-time parameters of one stream (length, capacity, concurrency,   *)
(* flags, which elements fail where) live in the constant-valued VARIABLE  *)
(* `p`, so that one TLC run covers a whole grid (Init picks `p`) and one   *)
(* TLC run validates recorded traces of many differently configured        *)
(* streams (TraceInit fixes `p` from the trace header).                    *)
(*                                                                         *)
(* Served properties: C01 (order / exactly once / pairing), C05 (clean     *)
(* end), C08 (look-ahead and concurrency bounds), C16 (async = sync),      *)
(* cancel side of C07.                                                     *)
(***************************************************************************)
EXTENDS Naturals, Sequences, FiniteSets, TLC

CONSTANTS
  MaxN, MaxCap, MaxConc,   \* grid bounds for Init
  MaxFail,                 \* at most this many failing / rejected elements per configuration
  Modes,                   \* subset of {"sync", "async"}
  ForwardBase,             \* TRUE = repaired: feeder forwards a BaseException (StopRequested) of the source
                           \* FALSE = as found: `except Exception` misses it, feeder thread dies silently (D2)
  AsyncPreFailBinds        \* TRUE = repaired: async feeder enqueues the pre-failed future
                           \* FALSE = as found: it enqueues the stale / unbound `t` (D3)

VARIABLES
  p,        \* parameters of this stream (never changes)
  srcPos,   \* number of successful pulls from the source
  feeder,   \* pc of the feeder: "idle","pull","check","work","put","putend","putexc","done","dead"
  held,     \* element the feeder holds between pull and put (0 = none)
  heldF,    \* future the feeder will enqueue with `held` (0 = unbound; sync: always = held)
  lastF,    \* async as-found: the value of the feeder's local `t` (0 = unbound)
  q,        \* the hand-off queue: sequence of [t, x, f], t \in {"item", "end", "exc"}
  fut,      \* fut[i] : state of the future made for element i
  pendq,    \* executor work queue (FIFO of submitted, not yet dequeued work items)
  wk,       \* work items currently in the hands of a pool worker (at most p.conc)
  calls,    \* calls[i] : how often the worker function was entered for element i
  cons,     \* pc of the consumer
  cur,      \* [x, f] the consumer holds between get and yield (x = 0: none)
  val,      \* value about to be yielded
  out,      \* everything yielded so far: sequence of [x, y, kind]
  stop,     \* the to_stop flag
  raised,   \* how the iteration ended abnormally: [k |-> "none" | "src" | "err", i |-> element]
  exec      \* "open" | "shut"   (the `with executor:` block of Parmapper)

vars == <<p, srcPos, feeder, held, heldF, lastF, q, fut, pendq, wk, calls, cons, cur, val, out, stop, raised, exec>>

NoCur == [x |-> 0, f |-> 0]
NoVal == [x |-> 0, y |-> 0, kind |-> "ok"]
Item(x, f) == [t |-> "item", x |-> x, f |-> f]
EndItem == [t |-> "end", x |-> 0, f |-> 0]
ExcItem == [t |-> "exc", x |-> 0, f |-> 0]
NotRaised == [k |-> "none", i |-> 0]
RaisedSrc == [k |-> "src", i |-> 0]
RaisedSub == [k |-> "sub", i |-> 0]
RaisedErr(i) == [k |-> "err", i |-> i]
Elems == 1..p.n

\* what the source really yields: p.n elements, or p.srcfail-1 if it fails at pull number p.srcfail
SrcLen == IF p.srcfail = 0 THEN p.n ELSE p.srcfail - 1

\* how many elements can get an output: the submission function itself (`func`: executor.submit, AsyncServer._enqueue ...)
\* may raise for element p.subfail (0 = never): like a failing source this ends the stream - after the outputs of all
\* EARLIER elements - and is never turned into that element's own result
EffLen == IF p.subfail # 0 THEN p.subfail - 1 ELSE SrcLen

Kind(i) == IF i \in p.fail \/ i \in p.prefail THEN "err" ELSE "ok"
Expected(k) == [x |-> k, y |-> k, kind |-> Kind(k)]

Resolved(f) == fut[f] \in {"ok", "err", "prefail"}
Running == {i \in 1..MaxN : fut[i] = "running"}
Busy == {i \in 1..MaxN : fut[i] \in {"taken", "running"}}

Params ==
  { c \in [ n : 0..MaxN, cap : 1..MaxCap, conc : 1..MaxConc, retexc : BOOLEAN,
            fail : SUBSET (1..MaxN), prefail : SUBSET (1..MaxN),
            srcfail : 0..(MaxN+1), srcbase : BOOLEAN, maybreak : BOOLEAN, mode : Modes, subfail : 0..MaxN ] :
      /\ c.fail \subseteq 1..c.n /\ c.prefail \subseteq 1..c.n
      /\ c.fail \cap c.prefail = {}
      /\ Cardinality(c.fail) + Cardinality(c.prefail) <= MaxFail
      /\ c.srcfail <= c.n + 1
      /\ (c.srcfail = 0 => ~c.srcbase)
      /\ (c.srcfail # 0 => c.n = MaxN)            \* failing source: keep one length only (symmetry of the grid)
      /\ c.subfail <= c.n /\ c.subfail \notin c.prefail      \* a rejected element never reaches `func`
      /\ (c.subfail # 0 => c.srcfail = 0 /\ c.n = MaxN /\ ~c.maybreak) }

InitWith(c) ==
  /\ p = c
  /\ srcPos = 0 /\ feeder = "idle" /\ held = 0 /\ heldF = 0 /\ lastF = 0
  /\ q = <<>>
  /\ fut = [i \in 1..MaxN |-> "none"]
  /\ pendq = <<>> /\ wk = {}
  /\ calls = [i \in 1..MaxN |-> 0]
  /\ cons = "new" /\ cur = NoCur /\ val = NoVal /\ out = <<>>
  /\ stop = FALSE /\ raised = NotRaised /\ exec = "open"

Init == \E c \in Params : InitWith(c)

-----------------------------------------------------------------------------
(* FEEDER -- `feed` (sync: 1022-1043, async: 1111-1132)                    *)

\* `for x in instream`
FeederPull ==
  /\ feeder = "pull" /\ srcPos < SrcLen
  /\ srcPos' = srcPos + 1 /\ held' = srcPos + 1 /\ feeder' = "check"
  /\ UNCHANGED <<p, heldF, lastF, q, fut, pendq, wk, calls, cons, cur, val, out, stop, raised, exec>>

FeederSrcEnd ==
  /\ feeder = "pull" /\ srcPos = SrcLen /\ p.srcfail = 0
  /\ feeder' = "putend"
  /\ UNCHANGED <<p, srcPos, held, heldF, lastF, q, fut, pendq, wk, calls, cons, cur, val, out, stop, raised, exec>>

\* the source raises: an Exception is forwarded; a BaseException only by the repaired code
FeederSrcRaise ==
  /\ feeder = "pull" /\ srcPos = SrcLen /\ p.srcfail # 0
  /\ feeder' = IF p.srcbase /\ ~ForwardBase THEN "dead" ELSE "putexc"
  /\ UNCHANGED <<p, srcPos, held, heldF, lastF, q, fut, pendq, wk, calls, cons, cur, val, out, stop, raised, exec>>

\* `if to_stop.is_set(): break`
FeederCheckStop ==
  /\ feeder = "check"
  /\ IF stop THEN feeder' = "putend" /\ held' = 0
             ELSE feeder' = "work" /\ held' = held
  /\ UNCHANGED <<p, srcPos, heldF, lastF, q, fut, pendq, wk, calls, cons, cur, val, out, stop, raised, exec>>

\* preprocessor raised: a pre-failed future stands for this element, `func` is not called
FeederPreFail ==
  /\ feeder = "work" /\ held \in p.prefail
  /\ fut' = [fut EXCEPT ![held] = "prefail"]
  /\ IF p.mode = "async" /\ ~AsyncPreFailBinds
       THEN heldF' = lastF             \* as found: `(x, t)` is enqueued, `t` is stale or unbound
       ELSE heldF' = held
  /\ feeder' = "put"
  /\ UNCHANGED <<p, srcPos, held, lastF, q, pendq, wk, calls, cons, cur, val, out, stop, raised, exec>>

\* `func(x)` itself raises: caught by the feeder's outer `except` like a failure of the source
FeederSubmitRaise ==
  /\ feeder = "work" /\ held \notin p.prefail /\ held = p.subfail
  /\ feeder' = "putexc" /\ held' = 0
  /\ UNCHANGED <<p, srcPos, heldF, lastF, q, fut, pendq, wk, calls, cons, cur, val, out, stop, raised, exec>>

\* `fut = func(x)`  (executor.submit / the user's future factory)
FeederSubmit ==
  /\ feeder = "work" /\ held \notin p.prefail /\ held # p.subfail
  /\ fut' = [fut EXCEPT ![held] = "pending"]
  /\ pendq' = Append(pendq, held)
  /\ heldF' = held /\ lastF' = held
  /\ feeder' = "put"
  /\ UNCHANGED <<p, srcPos, held, q, wk, calls, cons, cur, val, out, stop, raised, exec>>

\* `q.put((x, fut))` blocks while the queue holds Cap+1 items.
\* async as-found with an unbound `t`: UnboundLocalError is an Exception -> forwarded as source failure
FeederPut ==
  /\ feeder = "put"
  /\ IF heldF = 0
       THEN feeder' = "putexc" /\ held' = 0 /\ heldF' = 0 /\ q' = q
       ELSE /\ Len(q) < p.cap + 1
            /\ q' = Append(q, Item(held, heldF))
            /\ held' = 0 /\ heldF' = 0 /\ feeder' = "pull"
  /\ UNCHANGED <<p, srcPos, lastF, fut, pendq, wk, calls, cons, cur, val, out, stop, raised, exec>>

FeederPutEnd ==
  /\ feeder = "putend" /\ Len(q) < p.cap + 1
  /\ q' = Append(q, EndItem) /\ feeder' = "done"
  /\ UNCHANGED <<p, srcPos, held, heldF, lastF, fut, pendq, wk, calls, cons, cur, val, out, stop, raised, exec>>

FeederPutExc ==
  /\ feeder = "putexc" /\ Len(q) < p.cap + 1
  /\ q' = Append(q, ExcItem) /\ feeder' = "done"
  /\ UNCHANGED <<p, srcPos, held, heldF, lastF, fut, pendq, wk, calls, cons, cur, val, out, stop, raised, exec>>

-----------------------------------------------------------------------------
(* EXECUTOR -- ThreadPoolExecutor / ProcessPoolExecutor behind `func`.      *)
(* Work items start in submission order, at most p.conc run at a time;     *)
(* they FINISH in any order: that is the completion-order nondeterminism.  *)

\* an idle pool worker dequeues the oldest work item (it may have been cancelled meanwhile)
WorkerTake ==
  /\ pendq # <<>> /\ Cardinality(wk) < p.conc
  /\ wk' = wk \cup {Head(pendq)}
  /\ pendq' = Tail(pendq)
  /\ UNCHANGED <<p, srcPos, feeder, held, heldF, lastF, q, fut, calls, cons, cur, val, out, stop, raised, exec>>

\* `set_running_or_notify_cancel()` succeeded: from here on `cancel()` fails
WorkerSetRunning(i) ==
  /\ i \in wk /\ fut[i] = "pending"
  /\ fut' = [fut EXCEPT ![i] = "taken"]
  /\ UNCHANGED <<p, srcPos, feeder, held, heldF, lastF, q, pendq, wk, calls, cons, cur, val, out, stop, raised, exec>>

\* ... or the item was cancelled before that: dropped without calling the function
WorkerSkip(i) ==
  /\ i \in wk /\ fut[i] = "cancelled"
  /\ wk' = wk \ {i}
  /\ UNCHANGED <<p, srcPos, feeder, held, heldF, lastF, q, fut, pendq, calls, cons, cur, val, out, stop, raised, exec>>

\* the worker function is entered
WorkerStart(i) ==
  /\ fut[i] = "taken"
  /\ fut' = [fut EXCEPT ![i] = "running"] /\ calls' = [calls EXCEPT ![i] = @ + 1]
  /\ UNCHANGED <<p, srcPos, feeder, held, heldF, lastF, q, pendq, wk, cons, cur, val, out, stop, raised, exec>>

WorkerFinish(i) ==
  /\ fut[i] = "running"
  /\ fut' = [fut EXCEPT ![i] = IF i \in p.fail THEN "err" ELSE "ok"]
  /\ wk' = wk \ {i}
  /\ UNCHANGED <<p, srcPos, feeder, held, heldF, lastF, q, pendq, calls, cons, cur, val, out, stop, raised, exec>>

-----------------------------------------------------------------------------
(* CONSUMER -- generator body (1055-1076) and the user's loop               *)

\* first next(): the generator body starts, creating queue, flag and feeder thread
ConsStart ==
  /\ cons = "new"
  /\ cons' = "get" /\ feeder' = "pull"
  /\ UNCHANGED <<p, srcPos, held, heldF, lastF, q, fut, pendq, wk, calls, cur, val, out, stop, raised, exec>>

\* the generator is dropped / closed before its first next(): nothing ever starts
ConsNeverStarted ==
  /\ cons = "new" /\ p.maybreak
  /\ cons' = "closed"
  /\ UNCHANGED <<p, srcPos, feeder, held, heldF, lastF, q, fut, pendq, wk, calls, cur, val, out, stop, raised, exec>>

\* `z = tasks.get()`
ConsGet ==
  /\ cons = "get" /\ q # <<>>
  /\ q' = Tail(q)
  /\ LET z == Head(q) IN
       IF z.t = "end" THEN cons' = "drain" /\ cur' = cur /\ raised' = raised
       ELSE IF z.t = "exc" THEN cons' = "stopping" /\ cur' = cur
                                  /\ raised' = (IF p.subfail # 0 THEN RaisedSub ELSE RaisedSrc)
       ELSE cons' = "await" /\ cur' = [x |-> z.x, f |-> z.f] /\ raised' = raised
  /\ UNCHANGED <<p, srcPos, feeder, held, heldF, lastF, fut, pendq, wk, calls, val, out, stop, exec>>

\* `y = fut.result()` returns or raises once the future is resolved
ConsAwait ==
  /\ cons = "await" /\ Resolved(cur.f)
  /\ LET k == IF fut[cur.f] = "ok" THEN "ok" ELSE "err" IN
       IF k = "ok" \/ p.retexc
         THEN /\ val' = [x |-> cur.x, y |-> cur.f, kind |-> k]
              /\ cons' = "yield" /\ raised' = raised
         ELSE /\ val' = val /\ cons' = "stopping" /\ raised' = RaisedErr(cur.f)
  /\ UNCHANGED <<p, srcPos, feeder, held, heldF, lastF, q, fut, pendq, wk, calls, cur, out, stop, exec>>

\* `yield y` / `yield x, y`: the value is handed to the user, the generator is suspended
ConsYield ==
  /\ cons = "yield"
  /\ out' = Append(out, val) /\ cons' = "susp" /\ cur' = NoCur
  /\ UNCHANGED <<p, srcPos, feeder, held, heldF, lastF, q, fut, pendq, wk, calls, val, stop, raised, exec>>

\* the user asks for the next element ...
ConsNext ==
  /\ cons = "susp"
  /\ cons' = "get"
  /\ UNCHANGED <<p, srcPos, feeder, held, heldF, lastF, q, fut, pendq, wk, calls, cur, val, out, stop, raised, exec>>

\* ... or stops early (break / close() / garbage collection): GeneratorExit at the yield,
\* `except BaseException: to_stop.set(); raise`
ConsBreak ==
  /\ cons = "susp" /\ p.maybreak
  /\ cons' = "stopping"
  /\ UNCHANGED <<p, srcPos, feeder, held, heldF, lastF, q, fut, pendq, wk, calls, cur, val, out, stop, raised, exec>>

\* `except BaseException: to_stop.set(); raise` - a separate step: the feeder may test the flag in between
ConsSetStop ==
  /\ cons = "stopping"
  /\ stop' = TRUE /\ cons' = "drain"
  /\ UNCHANGED <<p, srcPos, feeder, held, heldF, lastF, q, fut, pendq, wk, calls, cur, val, out, raised, exec>>

-----------------------------------------------------------------------------
(* FINALIZER -- `finally:` (1080-1089)                                      *)

\* `while not tasks.empty(): z = tasks.get(); if z is None or an Exception: break`
FinDrainOne ==
  /\ cons = "drain" /\ q # <<>>
  /\ q' = Tail(q)
  /\ LET z == Head(q) IN
       IF z.t \in {"end", "exc"}
         THEN cons' = "join" /\ cur' = cur
         ELSE cons' = "cancel" /\ cur' = [x |-> z.x, f |-> z.f]
  /\ UNCHANGED <<p, srcPos, feeder, held, heldF, lastF, fut, pendq, wk, calls, val, out, stop, raised, exec>>

\* `t.cancel()`.  A concurrent.futures.Future can be cancelled only while its work item has not been started;
\* an asyncio task can also be cancelled while it runs (CancelledError is thrown into it at its next await).
Cancellable(f) == IF p.mode = "async" THEN fut[f] \in {"pending", "taken", "running"} ELSE fut[f] = "pending"
FinCancel ==
  /\ cons = "cancel"
  /\ IF Cancellable(cur.f)
       THEN /\ fut' = [fut EXCEPT ![cur.f] = "cancelled"]
            /\ wk' = IF fut[cur.f] \in {"taken", "running"} THEN wk \ {cur.f} ELSE wk
       ELSE fut' = fut /\ wk' = wk
  /\ cons' = "drain" /\ cur' = NoCur
  /\ UNCHANGED <<p, srcPos, feeder, held, heldF, lastF, q, pendq, calls, val, out, stop, raised, exec>>

\* `tasks.empty()` answered True
FinDrainEmpty ==
  /\ cons = "drain" /\ q = <<>>
  /\ cons' = "join"
  /\ UNCHANGED <<p, srcPos, feeder, held, heldF, lastF, q, fut, pendq, wk, calls, cur, val, out, stop, raised, exec>>

\* `feeder.join()`
FinJoin ==
  /\ cons = "join" /\ feeder \in {"done", "dead"}
  /\ cons' = "closed"
  /\ UNCHANGED <<p, srcPos, feeder, held, heldF, lastF, q, fut, pendq, wk, calls, cur, val, out, stop, raised, exec>>

\* leaving `with executor:` = shutdown(wait=True): returns when no work item is queued or running
ExecShutdown ==
  /\ cons = "closed" /\ exec = "open"
  /\ \A i \in 1..MaxN : fut[i] \notin {"pending", "taken", "running"}
  /\ wk = {} /\ pendq = <<>>
  /\ exec' = "shut"
  /\ UNCHANGED <<p, srcPos, feeder, held, heldF, lastF, q, fut, pendq, wk, calls, cons, cur, val, out, stop, raised>>

Terminated == cons = "closed" /\ exec = "shut"

Next ==
  \/ FeederPull \/ FeederSrcEnd \/ FeederSrcRaise \/ FeederCheckStop \/ FeederPreFail \/ FeederSubmit \/ FeederSubmitRaise
  \/ FeederPut \/ FeederPutEnd \/ FeederPutExc
  \/ WorkerTake \/ \E i \in 1..MaxN : (WorkerSetRunning(i) \/ WorkerSkip(i) \/ WorkerStart(i) \/ WorkerFinish(i))
  \/ ConsStart \/ ConsNeverStarted \/ ConsGet \/ ConsAwait \/ ConsYield \/ ConsNext \/ ConsBreak \/ ConsSetStop
  \/ FinDrainOne \/ FinCancel \/ FinDrainEmpty \/ FinJoin \/ ExecShutdown
  \/ (Terminated /\ UNCHANGED vars)       \* the only legal place to stop

Spec == Init /\ [][Next]_vars
FairSpec == Spec /\ WF_vars(Next)
           /\ WF_vars(FeederPull \/ FeederSrcEnd \/ FeederSrcRaise \/ FeederCheckStop \/ FeederPreFail
                      \/ FeederSubmit \/ FeederSubmitRaise \/ FeederPut \/ FeederPutEnd \/ FeederPutExc)
           /\ WF_vars(WorkerTake)
           /\ \A i \in 1..MaxN : WF_vars(WorkerSetRunning(i)) /\ WF_vars(WorkerSkip(i))
                                   /\ WF_vars(WorkerStart(i)) /\ WF_vars(WorkerFinish(i))
           /\ WF_vars(ConsStart \/ ConsNeverStarted \/ ConsGet \/ ConsAwait \/ ConsYield \/ ConsNext \/ ConsBreak
                      \/ ConsSetStop \/ FinDrainOne \/ FinCancel \/ FinDrainEmpty \/ FinJoin \/ ExecShutdown)

-----------------------------------------------------------------------------
(* PROPERTIES                                                              *)

TypeOK ==
  /\ srcPos \in 0..MaxN /\ held \in 0..MaxN /\ heldF \in 0..MaxN /\ lastF \in 0..MaxN
  /\ feeder \in {"idle", "pull", "check", "work", "put", "putend", "putexc", "done", "dead"}
  /\ cons \in {"new", "get", "await", "yield", "susp", "stopping", "drain", "cancel", "join", "closed"}
  /\ fut \in [1..MaxN -> {"none", "pending", "taken", "running", "ok", "err", "prefail", "cancelled"}]
  /\ stop \in BOOLEAN /\ exec \in {"open", "shut"}

\* C01: the k-th output is the result of the k-th input, paired with the k-th input
OutIsPrefix == \A k \in 1..Len(out) : out[k] = Expected(k)

\* C01: outputs are only ever appended
OutAppendOnly == [][Len(out') >= Len(out) /\ SubSeq(out', 1, Len(out)) = out]_vars

\* C01: the worker function runs at most once per element and never for a rejected one
CalledOnce == \A i \in 1..MaxN : calls[i] <= 1 /\ (i \in p.prefail => calls[i] = 0)

FirstBad == IF \E i \in 1..EffLen : Kind(i) = "err"
              THEN CHOOSE i \in 1..EffLen : Kind(i) = "err" /\ \A j \in 1..(i-1) : Kind(j) = "ok"
              ELSE 0

\* C01 + C05: how a finished iteration may have ended
\*   normal end        : exactly one output per element of the source
\*   element failure   : (only without return_exceptions) the FIRST failing element, after all earlier outputs
\*   source failure    : after an output for every element the source produced
\*   submission failure: after an output for every element before the one whose submission failed
\*   early stop        : any prefix
EndOK ==
  cons = "closed" =>
    \/ raised.k = "none" /\ Len(out) = SrcLen /\ p.srcfail = 0 /\ p.subfail = 0 /\ (p.retexc \/ FirstBad = 0)
    \/ raised.k = "none" /\ p.maybreak
    \/ raised.k = "src" /\ p.srcfail # 0 /\ Len(out) = SrcLen /\ (p.retexc \/ FirstBad = 0)
    \/ raised.k = "sub" /\ p.subfail # 0 /\ Len(out) = p.subfail - 1 /\ (p.retexc \/ FirstBad = 0)
    \/ /\ raised.k = "err" /\ ~p.retexc
       /\ raised.i = FirstBad /\ Len(out) = FirstBad - 1

\* C05: when the iterator is closed the feeder thread has exited
NoFeederLeak == cons = "closed" => feeder \in {"idle", "done", "dead"}
NoWorkLeak == exec = "shut" => \A i \in 1..MaxN : fut[i] \notin {"pending", "taken", "running"}

\* C08: bounded look-ahead and bounded concurrency.
\* While the stream is being consumed, "pulled but not yet handed over" is srcPos - Len(out).  Once the iteration
\* has ended (error raised / early stop) the finalizer discards what is queued, so the structural form InFlight -
\* every pulled element is in the feeder's hands, in the queue or in the consumer's hands - is what stays bounded.
Consuming == cons \in {"new", "get", "await", "yield", "susp"}
LookAhead == Consuming => srcPos - Len(out) <= p.cap + 3
InFlight == (IF held # 0 THEN 1 ELSE 0) + Cardinality({k \in DOMAIN q : q[k].t = "item"})
            + (IF cur.x # 0 THEN 1 ELSE 0)
InFlightBound == InFlight <= p.cap + 3
QueueBound == Len(q) <= p.cap + 1
ConcBound == Cardinality(Busy) <= p.conc /\ Busy \subseteq wk /\ Cardinality(wk) <= p.conc

\* C05: every iteration ends (checked under FairSpec); deadlock freedom is TLC's own check
EventuallyClosed == <>(Terminated)

\* ---- reachability goals ("trap invariants"): TLC must report each of these VIOLATED -----------------------
Trap_OutOfOrderFull  == ~(\E i \in 1..MaxN : fut[i] = "running" /\ \E j \in (i+1)..MaxN : fut[j] \in {"ok", "err"}
                           /\ Len(q) = p.cap + 1)
Trap_AwaitingWhileLaterDone == ~(cons = "await" /\ ~Resolved(cur.f) /\ \E j \in (cur.f+1)..MaxN : Resolved(j))
Trap_BreakWhileFeederBlocked == ~(cons = "stopping" /\ feeder = "put" /\ Len(q) = p.cap + 1)
Trap_PreFailBehindSlow == ~(\E i \in 2..MaxN : fut[i] = "prefail" /\ fut[i-1] = "running" /\ cons = "await")
Trap_MaxLookAhead == ~(Consuming /\ srcPos - Len(out) = p.cap + 3)
Trap_CancelPending == ~(\E i \in 1..MaxN : fut[i] = "cancelled")
=============================================================================
