---------------------------- MODULE ProcessRunner ----------------------------
(***************************************************************************)
(* mpservice/multiprocessing/runner.py (NOT one of the listed properties). *)
(* `ProcessRunner` keeps a custom object alive in a background process and *)
(* calls it any number of times: `restart(args)` queues an instruction,    *)
(* `rejoin()` takes the next result (raising it if it is an exception),    *)
(* `join()` queues the stop marker and waits for the process.              *)
(* Instructions travel through an unbounded queue, results through a queue *)
(* of capacity ONE: the worker blocks in `result.put` while an earlier     *)
(* result has not been taken.                                              *)
(***************************************************************************)
EXTENDS Naturals, Sequences, TLC

CONSTANTS MaxCalls

VARIABLES
  st,      \* the runner as the caller sees it: "new" | "up" | "stopping" (join() called, process still there) | "joined"
  instr,   \* instruction queue: [k, o] (k-th restart, outcome o of the call: "ok" | "err") or the stop marker [k |-> 0]
  res,     \* result queue, capacity 1
  wpc,     \* worker: "off" | "idle" | "have" | "exited"
  wcur,    \* the result in the worker's hands
  ncalls,  \* calls the worker object has served (its state persists between calls)
  sent, got,
  act      \* last external call and its outcome

vars == <<st, instr, res, wpc, wcur, ncalls, sent, got, act>>
Stop == [k |-> 0, o |-> "stop"]
None == [k |-> 0, o |-> "none"]

Init == /\ st = "new" /\ instr = <<>> /\ res = <<>> /\ wpc = "off" /\ wcur = None /\ ncalls = 0 /\ sent = 0 /\ got = 0
        /\ act = [name |-> "init", k |-> 0, o |-> "none", n |-> 0]

Start == /\ st = "new" /\ st' = "up" /\ wpc' = "idle"          \* the worker object is created and entered
         /\ act' = [name |-> "start", k |-> 0, o |-> "none", n |-> 0]
         /\ UNCHANGED <<instr, res, wcur, ncalls, sent, got>>

Restart(o) == /\ st = "up" /\ sent < MaxCalls
              /\ sent' = sent + 1 /\ instr' = Append(instr, [k |-> sent + 1, o |-> o])
              /\ act' = [name |-> "restart", k |-> sent + 1, o |-> o, n |-> 0]
              /\ UNCHANGED <<st, res, wpc, wcur, ncalls, got>>

\* worker: `zz = instructions.get()`; the stop marker ends the loop (the object is exited, the process ends); otherwise the
\* object is called - an exception becomes the result
WorkerTake == /\ wpc = "idle" /\ instr # <<>>
              /\ instr' = Tail(instr)
              /\ IF Head(instr) = Stop THEN wpc' = "exited" /\ wcur' = wcur /\ ncalls' = ncalls
                 ELSE /\ wpc' = "have" /\ ncalls' = ncalls + 1
                      /\ wcur' = [k |-> Head(instr).k, o |-> Head(instr).o, n |-> ncalls + 1]
              /\ UNCHANGED <<st, res, sent, got, act>>

\* `result.put(z)` - blocks while the one slot is taken
WorkerPut == /\ wpc = "have" /\ Len(res) < 1
             /\ res' = Append(res, wcur) /\ wpc' = "idle" /\ wcur' = None
             /\ UNCHANGED <<st, instr, ncalls, sent, got, act>>

\* `rejoin()`: the next result, in the order of the restarts
Rejoin == /\ st \in {"up", "stopping"} /\ res # <<>>
          /\ res' = Tail(res) /\ got' = got + 1
          /\ act' = [name |-> "rejoin", k |-> Head(res).k, o |-> Head(res).o, n |-> Head(res).n]
          /\ UNCHANGED <<st, instr, wpc, wcur, ncalls, sent>>

\* `join()`: the stop marker goes behind the pending instructions ...
Join == /\ st = "up" /\ st' = "stopping" /\ instr' = Append(instr, Stop)
        /\ act' = [name |-> "join", k |-> 0, o |-> "none", n |-> 0]
        /\ UNCHANGED <<res, wpc, wcur, ncalls, sent, got>>
\* ... and join returns when the process has ended
JoinReturn == /\ st = "stopping" /\ wpc = "exited" /\ st' = "joined"
              /\ act' = [name |-> "joined", k |-> 0, o |-> "none", n |-> ncalls]
              /\ UNCHANGED <<instr, res, wpc, wcur, ncalls, sent, got>>

Next == Start \/ (\E o \in {"ok", "err"} : Restart(o)) \/ WorkerTake \/ WorkerPut \/ Rejoin \/ Join \/ JoinReturn
        \/ (st = "joined" /\ UNCHANGED vars)
Spec == Init /\ [][Next]_vars
FairSpec == Spec /\ WF_vars(WorkerTake) /\ WF_vars(WorkerPut) /\ WF_vars(JoinReturn) /\ WF_vars(Rejoin)

-----------------------------------------------------------------------------
\* the k-th rejoin returns the outcome of the k-th restart, computed by the one long-lived object (its k-th call)
Fifo == act.name = "rejoin" => act.k = got /\ act.n = got
ResultSlot == Len(res) <= 1
\* nothing is computed twice or skipped
CallsInOrder == ncalls <= sent /\ got <= ncalls
\* the process ends only after every instruction queued before join() has been served
ServedBeforeExit == wpc = "exited" => ncalls = sent
\* join() returns provided the caller collects the results (FairSpec: rejoin is called whenever a result is there)
JoinReturns == (st = "stopping") ~> (st = "joined")
\* join() with two or more results uncollected cannot return: the worker blocks in result.put before it sees the stop marker
Trap_JoinStuck == ~(st = "stopping" /\ wpc = "have" /\ Len(res) = 1 /\ instr # <<>>)
Trap_ErrThenOk == ~(act.name = "rejoin" /\ act.o = "ok" /\ act.k >= 2 /\ got >= 2)
==============================================================================
