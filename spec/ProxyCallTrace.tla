--------------------------- MODULE ProxyCallTrace ---------------------------
(* Validates what concurrent callers of a REAL ServerProcess observed (mbt/bind/proxycall.py: threads of the parent,   *)
(* a child process and hosted code calling through in-server proxies, all running pre-generated operation lists at    *)
(* once under the OS schedule) against ProxyCall.  Only each caller's own order is trusted, plus real time: every     *)
(* call is logged with, per other caller d, the number need[d] of d's calls that had RETURNED before it was INVOKED     *)
(* (ranks of CLOCK_MONOTONIC instants).  TLC searches a linearization: an order of all calls that respects both,       *)
(* in which every call, applied atomically to the sequential objects, gives exactly the logged result.  When all       *)
(* calls are placed, the objects read back from the server must equal the model state.                                *)
EXTENDS ProxyCall, Json, IOUtils, TLCExt

TraceLog == JsonDeserialize(IOEnv.TRACE_FILE)
VARIABLES tid, pos, l
tvars == <<vars, tid, pos, l>>

P == TraceLog[tid].p
Total == Len(TraceLog[tid].ev)      \* all calls + the final read-back

TraceInit ==
  \E t \in 1..Len(TraceLog) :
     /\ tid = t /\ l = 1 /\ pos = [c \in Callers |-> 1] /\ Init
     /\ TLCSet(t, <<1, "init", "none">>)

Lin(c) ==
  /\ pos[c] <= Len(P.seqs[c])
  /\ LET e == P.seqs[c][pos[c]] IN
       /\ \A d \in Callers \ {c} : pos[d] - 1 >= e.need[d]
       /\ Call(c, e.o, e.op, e.a, e.b, e.s)
       /\ act'.r = e.r
  /\ pos' = [pos EXCEPT ![c] = @ + 1] /\ l' = l + 1 /\ tid' = tid

AllPlaced == \A c \in Callers : pos[c] = Len(P.seqs[c]) + 1
Final ==
  /\ AllPlaced /\ l = Total
  /\ L = P.final.L /\ K = P.final.K /\ V = P.final.V /\ n = P.final.n
  /\ [j \in 1..Len(D) |-> Pair(D[j].k, D[j].v)] = P.final.D
  /\ (P.final.hasN => N["x"] = P.final.Nx /\ N["y"] = P.final.Ny)
  /\ UNCHANGED <<vars, pos>> /\ l' = l + 1 /\ tid' = tid

TraceNext == (\E c \in Callers : Lin(c)) \/ Final
TraceSpec == TraceInit /\ [][TraceNext]_tvars

FailedInv ==
  IF ~TypeOK THEN "TypeOK" ELSE IF ~DictFunctional THEN "DictFunctional" ELSE IF ~ConnUsable THEN "ConnUsable"
  ELSE IF act.r # act.d THEN "SameAsDirect" ELSE "none"

Progress ==
  IF FailedInv # "none"
    THEN TLCSet(tid, <<TLCGet(tid)[1], TLCGet(tid)[2], FailedInv>>) /\ FALSE
    ELSE IF TLCGet(tid)[1] < l
           THEN TLCSet(tid, <<l, <<pos, L, K, D, N, V, n>>, TLCGet(tid)[3]>>)
           ELSE TRUE

Report ==
  \A t \in 1..Len(TraceLog) :
     PrintT(<<"VERDICT", t, TLCGet(t)[1], Len(TraceLog[t].ev), TLCGet(t)[2], TLCGet(t)[3]>>)
=============================================================================
