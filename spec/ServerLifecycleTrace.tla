------------------------ MODULE ServerLifecycleTrace ------------------------
(* Validates coarse observations of REAL runs (mbt/bind/lifecycle.py: real processes, real pipes) against                *)
(* ServerLifecycle: whether __enter__ returned or raised, how many workers / helper threads were alive afterwards,        *)
(* whether __exit__ returned and what was left, re-entry.  Everything inside is silent; TLC searches for a behaviour.     *)
EXTENDS ServerLifecycle, Json, IOUtils, TLCExt

TraceLog == JsonDeserialize(IOEnv.TRACE_FILE)
VARIABLES tid, l
tvars == <<vars, tid, l>>
Evs == TraceLog[tid].ev
E == Evs[l]
Is(name) == l <= Len(Evs) /\ E.ev = name
Adv == l' = l + 1 /\ tid' = tid
Silent == l' = l /\ tid' = tid
Same == UNCHANGED vars

TraceInit ==
  \E t \in 1..Len(TraceLog) :
     /\ tid = t /\ l = 1
     /\ cfg = [failAt |-> TraceLog[t].p.failAt, ab |-> TraceLog[t].p.ab]
     /\ cycle = 1 /\ phase = "idle" /\ spc = "enter" /\ k = 0
     /\ w = [i \in Wk |-> "none"] /\ wleft = [i \in Wk |-> 0]
     /\ buf = <<>> /\ pin = <<>> /\ pout = <<>> /\ ob = "off" /\ obx = "none" /\ g = "off" /\ led = 0
     /\ TLCSet(t, <<1, "init", "none">>)

TEntered     == Is("Entered") /\ phase = "running" /\ E.alive = Cardinality(Alive) /\ Same /\ Adv
TEnterFailed == Is("EnterFailed") /\ phase = "enterfailed" /\ E.procs = Cardinality(Alive) /\ E.threads = 0 /\ Same /\ Adv
\* `server.backlog` observed after exit is the model's ledger
TExited      == /\ Is("Exited") /\ phase = "exited" /\ E.procs = 0 /\ E.threads = 0
                /\ E.backlog = led
                /\ Same /\ Adv
TReenter     == Is("Reenter") /\ Reenter /\ Adv
TSilent == /\ \/ Enter \/ Spawn \/ Await \/ Cleanup \/ CleanJoin \/ EnterRaise \/ Helpers
              \/ ObGet \/ ObPut \/ Gather \/ GatherRelease
              \/ \E i \in Wk : WInit(i) \/ WTake(i) \/ WRes(i) \/ WRebroadcast(i) \/ WForward(i)
              \/ Exit \/ BufEnd \/ JoinOb \/ PinEnd \/ JoinW \/ JoinG \/ Finish
           /\ Silent
TraceNext == TEntered \/ TEnterFailed \/ TExited \/ TReenter \/ TSilent
TraceSpec == TraceInit /\ [][TraceNext]_tvars

FailedInv == IF ~AllOrNothing THEN "AllOrNothing" ELSE IF ~ExitComplete THEN "ExitComplete"
             ELSE IF ~LedgerEmptyAfterExit THEN "LedgerEmptyAfterExit" ELSE "none"
Progress ==
  IF FailedInv # "none"
    THEN TLCSet(tid, <<TLCGet(tid)[1], TLCGet(tid)[2], FailedInv>>) /\ FALSE
    ELSE IF TLCGet(tid)[1] < l
           THEN TLCSet(tid, <<l, <<cycle, phase, spc, w, ob, g>>, TLCGet(tid)[3]>>)
           ELSE TRUE
Report ==
  \A t \in 1..Len(TraceLog) :
     PrintT(<<"VERDICT", t, TLCGet(t)[1], Len(TraceLog[t].ev), TLCGet(t)[2], TLCGet(t)[3]>>)
=============================================================================
