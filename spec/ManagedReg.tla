------------------------------ MODULE ManagedReg ------------------------------
(* server_process.py: managed(obj) called WITHOUT a typeid by hosted code, concurrently in several server threads   *)
(* (one per client connection).  For a class that has no usable registry entry the function makes one up            *)
(* ("Managed<Name>" -> (None, None, None, proxytype)) and then calls Server.create(None, typeid, obj), which reads   *)
(* registry[typeid] under the server mutex.  The code carries the remark "TODO: delete after this single use?".     *)
(*                                                                                                                  *)
(* One action per statement that touches the shared registry:                                                       *)
(*   Lookup(t)    `callable, *_ = server.registry[typeid]`  (found: go on; KeyError: register)                     *)
(*   Register(t)  `server.registry[typeid] = (None, None, None, proxytype)`                                        *)
(*   Create(t)    `server.create(None, typeid, obj)` : `self.registry[typeid]` - KeyError if the entry is gone      *)
(*   Pop(t)       (only with KeepEntry = FALSE: the made-up entry is deleted by the call that made it up)           *)
(* KeepEntry = TRUE is the code.  FALSE is the design the TODO asks about: TLC shows it is unsafe (another thread    *)
(* that found the entry present creates after the entry was deleted), and that keeping the entries costs at most    *)
(* one entry per class (EntriesBounded).                                                                            *)
EXTENDS Naturals, FiniteSets, TLC

CONSTANTS Threads,      \* server threads (= clients calling at the same time)
          Classes,      \* classes of the objects handed to managed()
          MaxCalls,     \* calls per thread
          KeepEntry

VARIABLES reg,          \* the made-up registry entries present (one possible entry per class)
          pc, cls, val, \* per thread: control point, class and value of the object being wrapped
          madeup,       \* per thread: did THIS call make the entry up
          out,          \* per thread: what the call gives back: "none" | "proxy" | "keyerror"
          calls,        \* per thread: calls made
          act
vars == <<reg, pc, cls, val, madeup, out, calls, act>>

Vals == 1..2

Init == /\ reg = {} /\ pc = [t \in Threads |-> "idle"] /\ cls = [t \in Threads |-> CHOOSE c \in Classes : TRUE]
        /\ val = [t \in Threads |-> 0] /\ madeup = [t \in Threads |-> FALSE] /\ out = [t \in Threads |-> "none"]
        /\ calls = [t \in Threads |-> 0] /\ act = [name |-> "Init", t |-> 0]

Start(t, c, v) ==
  /\ pc[t] = "idle" /\ calls[t] < MaxCalls
  /\ pc' = [pc EXCEPT ![t] = "lookup"] /\ cls' = [cls EXCEPT ![t] = c] /\ val' = [val EXCEPT ![t] = v]
  /\ madeup' = [madeup EXCEPT ![t] = FALSE] /\ out' = [out EXCEPT ![t] = "none"]
  /\ calls' = [calls EXCEPT ![t] = @ + 1] /\ act' = [name |-> "Start", t |-> t]
  /\ UNCHANGED reg

Lookup(t) ==
  /\ pc[t] = "lookup"
  /\ pc' = [pc EXCEPT ![t] = IF cls[t] \in reg THEN "create" ELSE "register"]
  /\ act' = [name |-> "Lookup", t |-> t]
  /\ UNCHANGED <<reg, cls, val, madeup, out, calls>>

Register(t) ==
  /\ pc[t] = "register"
  /\ reg' = reg \cup {cls[t]} /\ madeup' = [madeup EXCEPT ![t] = TRUE]
  /\ pc' = [pc EXCEPT ![t] = "create"] /\ act' = [name |-> "Register", t |-> t]
  /\ UNCHANGED <<cls, val, out, calls>>

Create(t) ==
  /\ pc[t] = "create"
  /\ out' = [out EXCEPT ![t] = IF cls[t] \in reg THEN "proxy" ELSE "keyerror"]
  /\ pc' = [pc EXCEPT ![t] = IF ~KeepEntry /\ madeup[t] THEN "pop" ELSE "ret"]
  /\ act' = [name |-> "Create", t |-> t]
  /\ UNCHANGED <<reg, cls, val, madeup, calls>>

Pop(t) ==
  /\ pc[t] = "pop"
  /\ reg' = reg \ {cls[t]} /\ pc' = [pc EXCEPT ![t] = "ret"] /\ act' = [name |-> "Pop", t |-> t]
  /\ UNCHANGED <<cls, val, madeup, out, calls>>

Ret(t) ==
  /\ pc[t] = "ret"
  /\ pc' = [pc EXCEPT ![t] = "idle"] /\ act' = [name |-> "Ret", t |-> t]
  /\ UNCHANGED <<reg, cls, val, madeup, out, calls>>

Done == (\A t \in Threads : pc[t] = "idle" /\ calls[t] = MaxCalls) /\ UNCHANGED vars
Next == (\E t \in Threads : (\E c \in Classes, v \in Vals : Start(t, c, v)) \/ Lookup(t) \/ Register(t) \/ Create(t)
                            \/ Pop(t) \/ Ret(t)) \/ Done
Spec == Init /\ [][Next]_vars

TypeOK == reg \subseteq Classes /\ \A t \in Threads : out[t] \in {"none", "proxy", "keyerror"}
\* "values wrapped with managed() come back as live proxies": the call never fails for want of its registry entry
NoKeyError == \A t \in Threads : out[t] # "keyerror"
EveryCallGetsProxy == \A t \in Threads : pc[t] = "ret" => out[t] = "proxy"
\* what keeping the entries costs
EntriesBounded == Cardinality(reg) <= Cardinality(Classes)
Trap_BothRegister == ~(\E s, t \in Threads : s # t /\ madeup[s] /\ madeup[t] /\ cls[s] = cls[t] /\ pc[s] = "create" /\ pc[t] = "create")
=============================================================================
