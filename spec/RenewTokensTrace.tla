---------------------------- MODULE RenewTokensTrace ----------------------------
(* Validates what renew() does on the helper queues of a REAL IterableQueue over multiprocessing queues, as recorded *)
(* in the process that calls it (mbt/bind/iterqueue_proc.py, renewer 'self'): `RenewStart`, one `GetUsed` per token   *)
(* taken out of _used_lids, `RenewEnd`.  Lid moves, deliveries and the start of the next round are silent.           *)
EXTENDS RenewTokens, Sequences, Json, IOUtils, TLCExt

TraceLog == JsonDeserialize(IOEnv.TRACE_FILE)
VARIABLES tid, l
tvars == <<vars, tid, l>>
Evs == TraceLog[tid].ev
E == Evs[l]
Is(name) == l <= Len(Evs) /\ E.ev = name
Adv == l' = l + 1 /\ tid' = tid
Silent == l' = l /\ tid' = tid

TraceInit == \E t \in 1..Len(TraceLog) : tid = t /\ l = 1 /\ Init /\ TLCSet(t, <<1, "init", "none">>)
TStart == Is("RenewStart") /\ RenewStart /\ Adv
TGet   == Is("GetUsed") /\ RenewGet /\ Adv
TEnd   == Is("RenewEnd") /\ RenewEnd /\ Adv
TSilent == (MoveLid \/ DeliverUsed \/ NextRound) /\ Silent
TraceNext == TStart \/ TGet \/ TEnd \/ TSilent
TraceSpec == TraceInit /\ [][TraceNext]_tvars

FailedInv == IF ~TypeOK THEN "TypeOK" ELSE IF ~NothingLeaks THEN "NothingLeaks" ELSE "none"
Progress ==
  IF FailedInv # "none"
    THEN TLCSet(tid, <<TLCGet(tid)[1], TLCGet(tid)[2], FailedInv>>) /\ FALSE
    ELSE IF TLCGet(tid)[1] < l THEN TLCSet(tid, <<l, <<rpc, usedCnt, usedArr, spareCnt, taken, round>>, TLCGet(tid)[3]>>) ELSE TRUE
Report == \A t \in 1..Len(TraceLog) :
            PrintT(<<"VERDICT", t, TLCGet(t)[1], Len(TraceLog[t].ev), TLCGet(t)[2], TLCGet(t)[3]>>)
=============================================================================
